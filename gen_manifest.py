#!/usr/bin/env python3
# writes MANIFEST.json from the table below (kept in one place with plans.py)
import json
E1 = "implementation-level stateless model checking: the real client under a controlled one-goroutine-at-a-time scheduler (testing/synctest bubble, auto-inserted gates), simulated Dialer/net.Conn/Persistence/broker whose answers are explorer choices; depth-first enumeration with replay of every execution within the deviation bound (preemptions, faults, crashes, free switches, select priorities), (state key, budget) pruning; monitors over the event trace"
E3 = "bounded exhaustive enumeration of inputs / operation sequences on the real code against a reference model written from the specification (no sampling)"
checks = {
 "C01": ("E1", "pubflow: read routine + publisher of three persisted messages (both levels, retained); faults: short writes with timeout or error, lost writes, withheld responses, cuts, dial errors, refused connects, failing Save/Delete/Load. Delivery monitor: accepted ⇒ forwarded, exchange closes only after the broker's final acknowledgement, store clean at quiescence, refused publishes leave no trace, executions stabilise.", "§3 C01", E1),
 "C02": ("E1", "restart: three generations with new publishes each; a crash (stop + AdoptSession on a copy of the store) is an event at every quiescent state, combined with one connection fault. Monitors: no warning, pending set resumed per level in acceptance order with original identifiers and stage, everything delivered at the end (exactly-once: once).", "§3 C02", E1),
 "C03": ("E1", "qos2out: exactly-once publishes with window 2, faults at every stage of the four-packet handshake, crashes; monitors: no PUBLISH n between Save(PUBREL n) and the processed PUBCOMP n, PUBREL on every accepted connection in between, forwarded exactly once.", "§3 C03", E1),
 "C04": ("E1", "qos2in: inbound QoS 2 stream with identifier reuse and a message beyond the read buffer; broker retransmissions and PUBREL repeats on the same connection, cuts, lost acknowledgements, failing marker Save/Load/Delete, crashes.", "§3 C04", E1),
 "C05": ("E1", "puborder: three goroutines publishing on both levels while connections break and connects fail; wire order == acceptance order per level, ascending per connection, PUBREL order, DUP discipline, exchange close order.", "§3 C05", E1),
 "C06": ("E1", "inbound32/64: scripted stream of every PUBLISH shape around the (shrunk) read buffer size; every cut of the stream into reads with ≤ 2 cut points, each optionally followed by a pause that outlasts the deadline; BigMessage read or skipped; broker retransmissions of any unacknowledged message; inboundctl with control packets in between and a failing marker Save.", "§3 C06", E1),
 "C07": ("E1", "acktiming: inbound QoS 0/1/2 and a BigMessage with the application holding every return; concurrent Publish/Ping/Subscribe; the acknowledgement's own write failing.", "§3 C07", E1),
 "C08": ("E1", "writers: Publish (vectored), PublishRetained (empty payload), Subscribe, Ping, PublishAtLeastOnce and the read routine's PUBACK, with every accepted byte count of every Write followed by timeout or error; wire monitor (independent decoder) on every connection; denied requests (also a 256 MiB publish) in front; writers2: vectored Publish racing the retransmission; plus the free-running -race body race-client.", "§3 C08", E1),
 "C09": ("E3", "all ten request methods x every byte string of length ≤ 3 over a 17-byte UTF-8 alphabet + 4-byte lead/continuation strings + boundary lengths; remaining-length boundaries; Config product (user, password, will, keep-alive, clean session) through CONNECT composition; decoded by the reference codec.", "§3 C09", E3),
 "C10": ("E1", "wedge: inbound QoS 1/2 (the read routine owes acknowledgements) with Publish/Ping/Subscribe/persisted publishes failing at every placement; progress monitor at quiescence: reader on a live connection, online, every request released.", "§3 C10", E1),
 "C11": ("E1", "reqresp: Subscribe (two filters, one refused), Subscribe, Unsubscribe, two Pings from four goroutines, quit at any moment, cuts and failing writes; per-call monitor: own response, error cause, every call returns.", "§3 C11", E1),
 "C12": ("E1", "shutdown1/2: Close / Disconnect (+Close) started at every quiescent state of a run with Subscribe, Ping, persisted and plain publishes in flight, blocked dial and withheld CONNACK; monitors: every call returns, signals, ErrClosed afterwards (probes), exchanges get ErrClosed, connections closed, no goroutine left.", "§3 C12", E1),
 "C13": ("E1", "hostile: client staged with transfers at every stage (muted broker), then one byte string from a grammar-exhaustive domain (type x flags x lengths in minimal/padded/5-byte encodings x identifiers in/out of space and order x return codes x truncations, PUBLISH shapes, acknowledgement pairs); reference classifier says reject ⇒ error + fresh connection; no forged progress; mid-packet reads have a deadline. hostilepart / hostileany inject the strings in any phase, with state-independent verdicts only.", "§3 C13", E1),
 "C14": ("E1", "errclass/reqresp/hostile scenarios with the per-call class monitor (documented classes per method, 'not submitted' ⇒ no byte written, quit ⇒ ErrCanceled/ErrAbandoned) plus exhaustive error trees (wrap, custom Is, errors.Join, custom multi-unwrap; depth ≤ 2/3) for IsDeny/IsEnd/Backoff.", "§3 C14", E1),
 "C15": ("E3", "every packet length 0..120 (300 thorough) x five sequence numbers through the real record codec against the documented layout; every single-byte alteration (255 values) and every truncation of stored values, including records of a real session; damaged records through AdoptSession and connect.", "§3 C15", E3),
 "C16": ("E1", "damage1/2: crash at every quiescent state with every single (thorough: pair) damage of the snapshot — byte flips in packet/sequence/checksum, truncations, removal, stray entries — then AdoptSession, new publishes and inbound QoS 1/2 traffic against the reference broker; damagebulk (six records, pair damages), damagerel/damagerel2 (PUBRELs before PUBLISHes; a second, undamaged stop), damagefs (leftovers of interrupted FileSystem Saves).", "§3 C16", E1),
 "C17": ("E1", "window*: limits 2/1, 1/0, 3/negative, counters preset next to the 14-bit wrap (0x3ffe, 0x3fff, 0x7ffe), concurrent publishers, cuts, refused connects, failing Save, crash; monitors: in flight ≤ limit, ErrMax only when full, identifiers distinct/non-zero/in space; long runs across the 14-bit and 13-bit wraps (c17-longrun, c11-idwrap), 513 requests against 512 slots.", "§3 C17", E1),
 "C18": ("E1", "connect/connectclean: will+user+password Config, pending transfers, CONNECT failing at every byte, CONNACK cut at every byte with pauses, every flag byte x return codes {0,1,5,6,255} and every return code x flags {0,1} plus malformed replies (thorough: all 65 536), dial errors/blocks; requests of every type racing the attempt.", "§3 C18", E1),
 "C19": ("E3", "FileSystem store over an in-memory file system substituted for its os calls: histories of Save/Delete x a process stop at entry and exit of every primitive operation and inside each data write at every byte count, error injection at every primitive; plus two three-goroutine scenarios of Save/Load/Delete/List under the scheduler at primitive granularity with a brute-force linearizability check, on keys that differ in one bit (all 17 bits); the shim is bound to the kernel by an strace comparison (c19-kernel); plus the free-running -race body race-fs.", "§3 C19", E3),
 "C20": ("E3", "mqtttest mocks: all expectation lists (≤ 2) x call sequences (≤ 2, thorough 3) over 3 messages x 2 topics x quit {nil, open, closed}; filter-set sequences for both subscribe mocks; stubs; every exchange script of length ≤ 3 over {error, ErrClosed-wrapping, Block{0}, Block{1ms}}; plus the free-running -race body race-doubles (every double from three goroutines at once).", "§3 C20", E3),
}
notes = {
 "C13": "all byte strings is not enumerable: the domain is grammar-structured (see DESIGN §6); allocation bounds are not measured",
 "C19": "the deciding enumeration runs on the in-memory shim of the five os entry points; process-stop semantics (written data is there), not power loss",
 "C09": "256 MiB packets only in the thorough tier",
}
m = {
 "version": 1,
 "setup_cmd": "./setup.sh",
 "hooks": {
  "guard": "verif",
  "enable": "no hook lines are committed to /repo: ./check regenerates gates, goroutine identity, select determinisation and the os shim table from /repo's current sources into a scratch build overlay (go1.26.8 test -c -tags verif -overlay …); the generated verif_hooks.go carries //go:build verif",
  "baseline_off_cmd": "cd /repo && GOFLAGS=-mod=mod GOPROXY=off GOSUMDB=off go test -vet=off -count=1 ./...",
  "source_commits": [],
  "add_only": True,
 },
 "engines": [
  {"name": "E1", "path": "mc/", "serves_properties": [k for k, v in checks.items() if v[0] == "E1"], "kind_free_text": E1},
  {"name": "E3", "path": "mc/e3_*_test.go", "serves_properties": [k for k, v in checks.items() if v[0] == "E3"], "kind_free_text": E3},
  {"name": "race-pass", "path": "mc/race_test.go", "serves_properties": ["C08", "C19", "C20"], "kind_free_text": "supplement prescribed for cooperative schedulers: the same kinds of concurrent use on real goroutines without the scheduler in a -race build; reports of the race detector become violations; not exhaustive and marked so in the evidence"},
  {"name": "instrumenter", "path": "instrument/", "serves_properties": sorted(checks), "kind_free_text": "go/parser based rewriter producing the build overlay (gates, goroutine identity, deterministic select, os shim)"},
 ],
 "checks": [],
 "not_applicable": [],
 "notes": "exit codes: 0 held (KNOWN-FINDING lines possible), 1 VIOLATION, 2 tool error. known_findings.json lists genuine defects (fixed entries suppress nothing). seeded/ holds independently written property-breaking changes and which check catches them.",
}
for pid in sorted(checks):
    eng, text, ref, tech = checks[pid]
    m["checks"].append({
     "property_id": pid,
     "quick_cmd": "./check %s --tier quick" % pid,
     "thorough_cmd": "./check %s --tier thorough" % pid,
     "evidence_file": "evidence/%s.json" % pid,
     "replay_cmd_template": "./check %s --replay {path}" % pid,
     "engine": eng,
     "level_claimed": {"category": "model_checking", "text": text, "design_ref": ref},
     "level_note": "bounded by the scenario and the deviation budget of the tier (evidence reports the bound completed); environment, broker and file system are simulated. " + notes.get(pid, ""),
     "technique": tech,
    })
json.dump(m, open("MANIFEST.json", "w"), indent=1, ensure_ascii=False)
print("checks:", len(m["checks"]))
