module verif/instrument

go 1.23
