// verif-instrument: writes instrumented copies of the library sources of
// /repo's *current working tree* plus a go build overlay that maps the
// originals onto them. Nothing under the source directory is modified.
//
//	verif-instrument <repo dir> <out dir>
//
// Four mechanical rewrites, none of which changes behaviour while the hook
// variables are nil:
//
//  1. gates: "verifGate(site); " in front of every statement that performs a
//     channel operation, close, select, range over a channel, a mutex Lock or
//     starts a goroutine (never between Lock and the end of that function);
//  2. goroutine identity: "verifGoStart(site); defer verifGoEnd(); " as the
//     first statements of every function literal started with `go` or handed
//     to time.AfterFunc;
//  3. select determinisation: every select with two or more communication
//     clauses and no default is wrapped in a switch over the priority the
//     scheduler picked, each arm polling one clause first;
//  4. the os calls of the fileSystem store go through the verifOS shim table.
package main

import (
	"encoding/json"
	"fmt"
	"go/ast"
	"go/parser"
	"go/token"
	"os"
	"path/filepath"
	"sort"
	"strings"
)

func die(format string, a ...any) {
	fmt.Fprintf(os.Stderr, "verif-instrument: "+format+"\n", a...)
	os.Exit(2)
}

type ins struct {
	off  int
	text string
}

func apply(src string, inserts []ins) string {
	sort.SliceStable(inserts, func(i, j int) bool { return inserts[i].off > inserts[j].off })
	for _, in := range inserts {
		src = src[:in.off] + in.text + src[in.off:]
	}
	return src
}

// ---- pass A: gates and goroutine identity ----

func passGates(name, src string) (string, int) {
	fset := token.NewFileSet()
	f, err := parser.ParseFile(fset, name, src, parser.ParseComments)
	if err != nil {
		die("%v", err)
	}
	off := func(p token.Pos) int { return fset.Position(p).Offset }
	var inserts []ins
	gates := 0
	gate := func(pos token.Pos, tag string) {
		p := fset.Position(pos)
		gates++
		inserts = append(inserts, ins{p.Offset, fmt.Sprintf("verifGate(%q); ", fmt.Sprintf("%s:%d%s", name, p.Line, tag))})
	}
	gateSel := func(sel *ast.SelectStmt) {
		p := fset.Position(sel.Pos())
		n, hasDefault := 0, false
		for _, c := range sel.Body.List {
			if c.(*ast.CommClause).Comm == nil {
				hasDefault = true
			} else {
				n++
			}
		}
		gates++
		if hasDefault || n < 2 {
			inserts = append(inserts, ins{p.Offset, fmt.Sprintf("verifGate(%q); ", fmt.Sprintf("%s:%d", name, p.Line))})
			return
		}
		// gated and determinised by pass B
	}
	text := func(n ast.Node) string { return src[off(n.Pos()):off(n.End())] }

	// hasSync reports a synchronisation operation directly in n (not inside
	// function literals, nested blocks or clauses).
	hasSync := func(n ast.Node) bool {
		found := false
		ast.Inspect(n, func(x ast.Node) bool {
			if found || x == nil {
				return false
			}
			switch v := x.(type) {
			case *ast.FuncLit:
				return false
			case *ast.BlockStmt:
				return x == n
			case *ast.CaseClause, *ast.CommClause:
				return false
			case *ast.UnaryExpr:
				if v.Op == token.ARROW {
					found = true
				}
			case *ast.SendStmt:
				found = true
			case *ast.CallExpr:
				switch fn := v.Fun.(type) {
				case *ast.Ident:
					if fn.Name == "close" {
						found = true
					}
				case *ast.SelectorExpr:
					switch fn.Sel.Name {
					case "Lock", "RLock":
						found = true
					case "Wait":
						// sync.WaitGroup.Wait / sync.Cond.Wait
						found = true
					}
				}
			}
			return true
		})
		return found
	}
	isLock := func(s ast.Stmt) bool {
		es, ok := s.(*ast.ExprStmt)
		if !ok {
			return false
		}
		ce, ok := es.X.(*ast.CallExpr)
		if !ok {
			return false
		}
		se, ok := ce.Fun.(*ast.SelectorExpr)
		return ok && (se.Sel.Name == "Lock" || se.Sel.Name == "RLock")
	}

	var doBlock func(list []ast.Stmt, locked bool)
	var doStmt func(s ast.Stmt, locked bool)
	goLit := func(fl *ast.FuncLit, site token.Pos) {
		p := fset.Position(site)
		inserts = append(inserts, ins{off(fl.Body.Lbrace) + 1,
			fmt.Sprintf(" verifGoStart(%q); defer verifGoEnd(); ", fmt.Sprintf("%s:%d", name, p.Line))})
	}
	// funcLits visits function literals directly in the statement.
	funcLits := func(n ast.Node) {
		ast.Inspect(n, func(x ast.Node) bool {
			switch v := x.(type) {
			case *ast.GoStmt:
				if fl, ok := v.Call.Fun.(*ast.FuncLit); ok {
					goLit(fl, v.Pos())
				}
			case *ast.CallExpr:
				if se, ok := v.Fun.(*ast.SelectorExpr); ok && se.Sel.Name == "AfterFunc" {
					for _, a := range v.Args {
						if fl, ok := a.(*ast.FuncLit); ok {
							goLit(fl, v.Pos())
						}
					}
				}
			case *ast.FuncLit:
				doBlock(v.Body.List, false)
				return false
			}
			return true
		})
	}
	doStmt = func(s ast.Stmt, locked bool) {
		switch v := s.(type) {
		case *ast.BlockStmt:
			doBlock(v.List, locked)
		case *ast.IfStmt:
			doBlock(v.Body.List, locked)
			if v.Else != nil {
				doStmt(v.Else, locked)
			}
		case *ast.ForStmt:
			doBlock(v.Body.List, locked)
		case *ast.RangeStmt:
			doBlock(v.Body.List, locked)
		case *ast.SwitchStmt:
			for _, c := range v.Body.List {
				doBlock(c.(*ast.CaseClause).Body, locked)
			}
		case *ast.TypeSwitchStmt:
			for _, c := range v.Body.List {
				doBlock(c.(*ast.CaseClause).Body, locked)
			}
		case *ast.SelectStmt:
			for _, c := range v.Body.List {
				doBlock(c.(*ast.CommClause).Body, locked)
			}
		case *ast.LabeledStmt:
			doStmt(v.Stmt, locked)
		}
	}
	doBlock = func(list []ast.Stmt, locked bool) {
		for _, s := range list {
			switch s.(type) {
			case *ast.ExprStmt, *ast.AssignStmt, *ast.DeferStmt, *ast.GoStmt, *ast.ReturnStmt, *ast.DeclStmt, *ast.SendStmt:
				funcLits(s)
			}
			var probe ast.Node = s
			switch v := s.(type) {
			case *ast.IfStmt:
				if !locked && ((v.Init != nil && hasSync(v.Init)) || hasSync(v.Cond)) {
					gate(s.Pos(), "")
				}
				probe = nil
			case *ast.ForStmt:
				if v.Init != nil && hasSync(v.Init) || v.Cond != nil && hasSync(v.Cond) || v.Post != nil && hasSync(v.Post) {
					die("%s: channel operation in a for clause is not supported", fset.Position(s.Pos()))
				}
				probe = nil
			case *ast.RangeStmt:
				// range over a channel: recognised by the operand naming a queue
				// or a channel-typed identifier cannot be told without types; the
				// library ranges over "….queue" and over exchange channels only.
				xs := text(v.X)
				if !locked && (hasSync(v.X) || strings.HasSuffix(xs, "queue") || strings.HasSuffix(xs, "Queue") || strings.HasPrefix(xs, "ch") || strings.Contains(xs, "exchange")) {
					gate(s.Pos(), "")
					inserts = append(inserts, ins{off(v.Body.Lbrace) + 1, fmt.Sprintf(" verifGate(%q); ", fmt.Sprintf("%s:%dr", name, fset.Position(s.Pos()).Line))})
					gates++
				}
				probe = nil
			case *ast.SwitchStmt:
				if !locked && (v.Tag != nil && hasSync(v.Tag) || v.Init != nil && hasSync(v.Init)) {
					gate(s.Pos(), "")
				}
				probe = nil
			case *ast.SelectStmt:
				if !locked {
					gateSel(v)
				}
				probe = nil
			case *ast.GoStmt:
				probe = nil
			case *ast.DeferStmt:
				probe = nil
			case *ast.BlockStmt, *ast.LabeledStmt, *ast.TypeSwitchStmt:
				probe = nil
			}
			if isLock(s) && !locked {
				// X.Lock() becomes verifLock(X.TryLock, func() { X.Lock() }): under the
				// scheduler a goroutine that finds the mutex taken parks at a gate and
				// tries again later, instead of blocking where neither the scheduler
				// nor synctest can see it (a mutex held across a blocking operation)
				recv := text(s.(*ast.ExprStmt).X.(*ast.CallExpr).Fun.(*ast.SelectorExpr).X)
				inserts = append(inserts, ins{off(s.Pos()), fmt.Sprintf("verifLock(%s.TryLock, func() { ", recv)})
				inserts = append(inserts, ins{off(s.End()), " })"})
			}
			if probe != nil && !locked && hasSync(probe) {
				gate(s.Pos(), "")
			}
			if isLock(s) {
				// stay ungated up to the end of the enclosing function: a
				// goroutine spinning on a mutex is not durably blocked
				locked = true
			}
			doStmt(s, locked)
		}
	}
	for _, d := range f.Decls {
		if fd, ok := d.(*ast.FuncDecl); ok && fd.Body != nil {
			if fd.Recv != nil && len(fd.Recv.List) == 1 {
				// connSignal methods only panic; skip nothing special
			}
			doBlock(fd.Body.List, false)
		}
	}
	return apply(src, inserts), gates
}

// ---- pass B: select determinisation ----

func passSelect(name, src string) (string, int) {
	fset := token.NewFileSet()
	f, err := parser.ParseFile(fset, name, src, parser.ParseComments)
	if err != nil {
		die("pass B: %v", err)
	}
	off := func(p token.Pos) int { return fset.Position(p).Offset }
	count := 0
	isTarget := func(s *ast.SelectStmt) bool {
		n := 0
		for _, c := range s.Body.List {
			if c.(*ast.CommClause).Comm == nil {
				return false
			}
			n++
		}
		return n >= 2
	}
	var render func(from, to int, root ast.Node) string
	var renderSelect func(s *ast.SelectStmt) string
	// render returns src[from:to] with the outermost target selects inside
	// root (other than root itself) replaced by their rewritten form.
	render = func(from, to int, root ast.Node) string {
		type rep struct {
			from, to int
			text     string
		}
		var reps []rep
		ast.Inspect(root, func(x ast.Node) bool {
			if x == nil {
				return false
			}
			if off(x.Pos()) >= to || off(x.End()) <= from {
				return false
			}
			if s, ok := x.(*ast.SelectStmt); ok && x != root && isTarget(s) && off(s.Pos()) >= from && off(s.End()) <= to {
				reps = append(reps, rep{off(s.Pos()), off(s.End()), renderSelect(s)})
				return false
			}
			if ls, ok := x.(*ast.LabeledStmt); ok && x != root {
				if _, isSel := root.(*ast.SelectStmt); isSel {
					die("%s: label %s inside a select clause is not supported", fset.Position(ls.Pos()), ls.Label.Name)
				}
			}
			return true
		})
		sort.Slice(reps, func(i, j int) bool { return reps[i].from > reps[j].from })
		out := src[from:to]
		for _, r := range reps {
			out = out[:r.from-from] + r.text + out[r.to-from:]
		}
		return out
	}
	renderSelect = func(s *ast.SelectStmt) string {
		count++
		n := len(s.Body.List)
		clauses := make([]string, n)
		var temps strings.Builder
		for i, c := range s.Body.List {
			cc := c.(*ast.CommClause)
			// the channel operand is evaluated once, up front, as the
			// language does on entering a select; its evaluation may itself
			// contain gates (c.Online()), the polls below must not
			var ch ast.Expr
			switch v := cc.Comm.(type) {
			case *ast.SendStmt:
				ch = v.Chan
			case *ast.ExprStmt:
				ch = v.X.(*ast.UnaryExpr).X
			case *ast.AssignStmt:
				ch = v.Rhs[0].(*ast.UnaryExpr).X
			default:
				die("%s: unsupported select clause", fset.Position(c.Pos()))
			}
			tmp := fmt.Sprintf("verifCh%d_%d", count, i)
			fmt.Fprintf(&temps, "%s := %s\n", tmp, src[off(ch.Pos()):off(ch.End())])
			text := render(off(c.Pos()), off(c.End()), s)
			// the operand sits in the clause header, in front of any nested rewrite
			rel := off(ch.Pos()) - off(c.Pos())
			text = text[:rel] + tmp + text[rel+off(ch.End())-off(ch.Pos()):]
			clauses[i] = text
		}
		orig := "select {\n" + strings.Join(clauses, "\n") + "\n}"
		var b strings.Builder
		b.WriteString("{\n" + temps.String())
		fmt.Fprintf(&b, "switch verifGateSel(%q, %d) {\n", fmt.Sprintf("%s:%d", name, fset.Position(s.Pos()).Line), n)
		for first := 0; first < n; first++ {
			fmt.Fprintf(&b, "case %d:\n", first)
			order := []int{first}
			for i := 0; i < n; i++ {
				if i != first {
					order = append(order, i)
				}
			}
			for _, i := range order {
				b.WriteString("select {\n" + clauses[i] + "\ndefault:\n")
			}
			b.WriteString(orig + "\n")
			for range order {
				b.WriteString("}\n")
			}
		}
		b.WriteString("default:\n" + orig + "\n}\n}")
		return b.String()
	}
	return render(0, len(src), f), count
}

// ---- pass C: os shim for the fileSystem store ----

func passOS(name, src string) string {
	fset := token.NewFileSet()
	f, err := parser.ParseFile(fset, name, src, parser.ParseComments)
	if err != nil {
		die("pass C: %v", err)
	}
	var inserts []ins
	for _, d := range f.Decls {
		fd, ok := d.(*ast.FuncDecl)
		if !ok || fd.Recv == nil || fd.Body == nil || len(fd.Recv.List) != 1 {
			continue
		}
		id, ok := fd.Recv.List[0].Type.(*ast.Ident)
		if !ok || id.Name != "fileSystem" {
			continue
		}
		ast.Inspect(fd.Body, func(x ast.Node) bool {
			se, ok := x.(*ast.SelectorExpr)
			if !ok {
				return true
			}
			pkg, ok := se.X.(*ast.Ident)
			if !ok || pkg.Name != "os" {
				return true
			}
			switch se.Sel.Name {
			case "Create", "Rename", "Remove", "ReadFile", "Open", "OpenFile", "WriteFile", "Stat", "Lstat":
				o := fset.Position(pkg.Pos()).Offset
				// os.X -> verifOS.X
				inserts = append(inserts, ins{o, "verif"})
			case "ErrNotExist", "ErrExist", "PathSeparator", "O_RDONLY", "O_WRONLY", "O_RDWR", "O_APPEND", "O_CREATE", "O_EXCL", "O_SYNC", "O_TRUNC", "FileMode", "ModePerm", "PathError", "IsNotExist", "IsExist":
				// constants, types and pure helpers need no shim
			default:
				die("%s: os.%s inside the fileSystem store has no shim; the file-system checks cannot follow it", fset.Position(se.Pos()), se.Sel.Name)
			}
			return true
		})
	}
	// "verif"+"os" -> need "verifOS": patch textually after insertion
	out := apply(src, inserts)
	for _, fn := range []string{"Create", "Rename", "Remove", "ReadFile", "OpenFile", "Open", "WriteFile", "Stat", "Lstat"} {
		out = strings.ReplaceAll(out, "verifos."+fn, "verifOS."+fn)
	}
	return out
}

func main() {
	if len(os.Args) != 3 {
		die("usage: verif-instrument <repo> <out>")
	}
	repo, out := os.Args[1], os.Args[2]
	if err := os.MkdirAll(out, 0o755); err != nil {
		die("%v", err)
	}
	overlay := map[string]string{}
	self, _ := os.Executable()
	hooksSrc := filepath.Join(filepath.Dir(self), "hooks.go.txt")
	if _, err := os.Stat(hooksSrc); err != nil {
		hooksSrc = filepath.Join(filepath.Dir(os.Args[0]), "hooks.go.txt")
	}
	for _, name := range []string{"client.go", "request.go", "mqtt.go"} {
		path := filepath.Join(repo, name)
		data, err := os.ReadFile(path)
		if err != nil {
			die("%v", err)
		}
		a, gates := passGates(name, string(data))
		b, sels := passSelect(name, a)
		if name == "mqtt.go" {
			b = passOS(name, b)
		}
		dst := filepath.Join(out, name)
		if err := os.WriteFile(dst, []byte(b), 0o644); err != nil {
			die("%v", err)
		}
		overlay[path] = dst
		fmt.Fprintf(os.Stderr, "verif-instrument: %s: %d gates, %d selects determinised\n", name, gates, sels)
	}
	hooks, err := os.ReadFile(hooksSrc)
	if err != nil {
		die("%v", err)
	}
	dst := filepath.Join(out, "verif_hooks.go")
	if err := os.WriteFile(dst, hooks, 0o644); err != nil {
		die("%v", err)
	}
	overlay[filepath.Join(repo, "verif_hooks.go")] = dst
	j, _ := json.MarshalIndent(map[string]any{"Replace": overlay}, "", " ")
	if err := os.WriteFile(filepath.Join(out, "overlay.json"), j, 0o644); err != nil {
		die("%v", err)
	}
}
