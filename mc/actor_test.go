package mc

// Application actors: goroutines running a script of API calls; each call is
// released by the scheduler and its result is a visible event.

import (
	"errors"
	"fmt"
	"net"
	"sort"
	"strings"
	"time"

	"github.com/pascaldekloe/mqtt"
)

type Op struct {
	Kind    string // pub0 pub0r pub1 pub1r pub2 pub2r sub sub0 sub1 unsub ping disc close online offline
	Topic   string
	Msg     []byte
	Filters []string
	Key     uint
	Quit    int // 0 nil, 1 open and never closed, 2 closed before the call, 3 closed by a scheduler event
}

const (
	quitNil = iota
	quitOpen
	quitClosed
	quitLater
)

type ActorSpec struct {
	Name   string
	Ops    []Op
	Reader *ReaderSpec
}

type ReaderSpec struct {
	Backoff bool // wait on ReadBackoff after errors
	ReadBig bool // ReadAll a BigMessage
	Max     int  // stop after this many ReadSlices calls (0 = until ErrClosed)
}

type actor struct {
	spec      *ActorSpec
	w         *World
	gen       int
	pc        int // ops completed / reads done
	th        *thread
	quitArmed chan struct{}
	results   []Result
	finished  bool
	inCall    bool
	pend      []func() // observations handed to the root, which logs them at quiescence in actor order
}

// later queues an observation: several goroutines may return from their calls
// in the same scheduler step (woken by one close or by a map-ordered
// broadcast), the order in which they get to run is not the explorer's.
func (a *actor) later(f func()) { a.pend = append(a.pend, f) }

func (w *World) collectObservations() {
	for _, a := range w.actors {
		if len(a.pend) > 0 {
			p := a.pend
			a.pend = nil
			for _, f := range p {
				f()
			}
		}
	}
}

type Result struct {
	Op    Op
	Idx   int
	Err   error
	Class string
	X     *xch
}

// xch is the exchange channel of a persisted publish, polled by the root.
type xch struct {
	actor  string
	idx    int
	op     Op
	ch     <-chan error
	errs   []error
	closed bool
	gen    int
	// abandoned: the process that owned it was stopped (closed is set too, so
	// that nobody polls it; monitors must not read that as "completed")
	abandoned bool
}

func (w *World) pollExchanges() {
	for _, x := range w.xchs {
		if x.closed {
			continue
		}
		for {
			select {
			case err, ok := <-x.ch:
				if !ok {
					x.closed = true
					w.ev(Event{K: "xclosed", T: x.actor, N: x.idx})
				} else {
					x.errs = append(x.errs, err)
					w.ev(Event{K: "xerr", T: x.actor, N: x.idx, R: classify(err), S: err.Error()})
				}
				if ok {
					continue
				}
			default:
			}
			break
		}
	}
}

// classify renders the documented classes an error belongs to.
func classify(err error) string {
	if err == nil {
		return "nil"
	}
	var c []string
	for _, e := range []struct {
		name string
		err  error
	}{{"ErrClosed", mqtt.ErrClosed}, {"ErrDown", mqtt.ErrDown}, {"ErrMax", mqtt.ErrMax}, {"ErrCanceled", mqtt.ErrCanceled},
		{"ErrAbandoned", mqtt.ErrAbandoned}, {"ErrSubmit", mqtt.ErrSubmit}, {"ErrBreak", mqtt.ErrBreak}} {
		if errors.Is(err, e.err) {
			c = append(c, e.name)
		}
	}
	if mqtt.IsDeny(err) {
		c = append(c, "Deny")
	}
	var se mqtt.SubscribeError
	if errors.As(err, &se) {
		c = append(c, "SubscribeError"+fmt.Sprint([]string(se)))
	}
	var big *mqtt.BigMessage
	if errors.As(err, &big) {
		c = append(c, "BigMessage")
	}
	if mqtt.IsConnectionRefused(err) {
		c = append(c, "Refused")
	}
	if errors.Is(err, errSimStore) {
		c = append(c, "StoreErr")
	}
	if len(c) == 0 {
		return "other(" + err.Error() + ")"
	}
	return strings.Join(c, "+")
}

func (w *World) startActor(spec *ActorSpec) *actor {
	a := &actor{spec: spec, w: w, gen: w.gen}
	w.actors = append(w.actors, a)
	name := spec.Name
	if w.gen > 0 {
		name = fmt.Sprintf("%s.g%d", spec.Name, w.gen)
	}
	a.th = w.sch.spawn("a:"+name, func(t *thread) {
		defer func() {
			if r := recover(); r != nil {
				w.panics = append(w.panics, fmt.Sprintf("actor %s: %v", name, r))
			}
			a.finished = true
		}()
		if spec.Reader != nil {
			a.runReader(t)
		} else {
			a.runOps(t)
		}
	})
	a.th.actor = a
	return a
}

func (a *actor) dead() bool { return a.w.sch.passThrough(a.th) }

func (a *actor) runOps(t *thread) {
	w := a.w
	c := w.client
	for i, op := range a.spec.Ops {
		if i > 0 {
			w.sch.park(t, "app:"+op.Kind, kindApp)
		}
		if a.dead() {
			return
		}
		var quit chan struct{}
		switch op.Quit {
		case quitOpen:
			quit = make(chan struct{})
		case quitClosed:
			quit = make(chan struct{})
			close(quit)
		case quitLater:
			quit = make(chan struct{})
			a.quitArmed = quit
		}
		w.ev(Event{K: "call", T: a.spec.Name, S: op.Kind, N: i})
		a.inCall = true
		var err error
		var ch <-chan error
		fsResult := ""
		switch op.Kind {
		case "pub0":
			err = c.Publish(quit, op.Msg, op.Topic)
		case "pub0r":
			err = c.PublishRetained(quit, op.Msg, op.Topic)
		case "pub1":
			ch, err = c.PublishAtLeastOnce(op.Msg, op.Topic)
		case "pub1r":
			ch, err = c.PublishAtLeastOnceRetained(op.Msg, op.Topic)
		case "pub2":
			ch, err = c.PublishExactlyOnce(op.Msg, op.Topic)
		case "pub2r":
			ch, err = c.PublishExactlyOnceRetained(op.Msg, op.Topic)
		case "sub":
			err = c.Subscribe(quit, op.Filters...)
		case "sub0":
			err = c.SubscribeLimitAtMostOnce(quit, op.Filters...)
		case "sub1":
			err = c.SubscribeLimitAtLeastOnce(quit, op.Filters...)
		case "unsub":
			err = c.Unsubscribe(quit, op.Filters...)
		case "ping":
			err = c.Ping(quit)
		case "disc":
			err = c.Disconnect(quit)
		case "close":
			err = c.Close()
		case "online":
			<-c.Online()
		case "offline":
			<-c.Offline()
		case "fs-save":
			err = w.fsStore.Save(op.Key, net.Buffers{op.Msg[:len(op.Msg)/2], op.Msg[len(op.Msg)/2:]})
		case "fs-delete":
			err = w.fsStore.Delete(op.Key)
		case "fs-load":
			var b []byte
			b, err = w.fsStore.Load(op.Key)
			fsResult = fmt.Sprintf("%q", b)
			if b == nil {
				fsResult = "absent"
			}
		case "fs-list":
			var keys []uint
			keys, err = w.fsStore.List()
			sort.Slice(keys, func(i, j int) bool { return keys[i] < keys[j] })
			fsResult = fmt.Sprintf("%x", keys)
		default:
			panic("unknown op " + op.Kind)
		}
		a.inCall = false
		if a.dead() {
			return
		}
		if a.quitArmed == quit {
			a.quitArmed = nil
		}
		res := Result{Op: op, Idx: i, Err: err, Class: classify(err)}
		if ch != nil {
			res.X = &xch{actor: a.spec.Name, idx: i, op: op, ch: ch, gen: a.gen}
		}
		if fsResult != "" && err == nil {
			res.Class = fsResult
		}
		a.later(func() {
			if res.X != nil {
				w.xchs = append(w.xchs, res.X)
			}
			a.results = append(a.results, res)
			a.pc = i + 1
			w.ev(Event{K: "ret", T: a.spec.Name, S: op.Kind, N: i, R: res.Class})
		})
	}
}

// Delivery is one return of ReadSlices.
type Delivery struct {
	Msg, Topic []byte
	Err        error
	Class      string
	Big        bool
	BigSize    int
	BigTopic   string
	BigBody    []byte
	BigErr     error
	Step       int
	Gen        int
}

func (a *actor) runReader(t *thread) {
	w := a.w
	c := w.client
	rs := a.spec.Reader
	for n := 0; rs.Max == 0 || n < rs.Max; n++ {
		if n > 0 {
			w.sch.park(t, "app:rs", kindApp)
		}
		if a.dead() {
			return
		}
		w.ev(Event{K: "call", T: a.spec.Name, S: "rs", N: n})
		a.inCall = true
		msg, topic, err := c.ReadSlices()
		a.inCall = false
		if a.dead() {
			return
		}
		d := Delivery{Msg: clone(msg), Topic: clone(topic), Err: err, Class: classify(err), Step: w.step, Gen: a.gen}
		var big *mqtt.BigMessage
		if errors.As(err, &big) {
			d.Big, d.BigSize, d.BigTopic = true, big.Size, big.Topic
		}
		e := Event{K: "ret", T: a.spec.Name, S: "rs", N: n, R: d.Class}
		if err == nil {
			e.B = append(append(clone(topic), 0), msg...)
		} else if d.Big {
			e.R = fmt.Sprintf("BigMessage(%d,%q)", big.Size, big.Topic)
		} else {
			e.R += " " + err.Error()
		}
		dp := &d
		a.later(func() {
			w.deliveries = append(w.deliveries, dp)
			a.pc = n + 1
			if a.gen == w.gen && w.client != nil {
				if dump := mqtt.VerifDump(w.client); strings.Contains(dump, "writeSem=") {
					e.D = strings.Fields(dump[strings.Index(dump, "writeSem=")+9:])[0]
				}
			}
			w.ev(e)
		})
		// the application asks ReadBackoff right after the return, as the
		// package example does, and only then touches a BigMessage
		var backoff <-chan struct{}
		if rs.Backoff {
			backoff = c.ReadBackoff(err)
			if err == nil || d.Big {
				select {
				case <-backoff:
				default:
					a.later(func() { w.ev(Event{K: "backoff", T: a.spec.Name, N: -1, R: d.Class}) })
				}
			}
		}
		if d.Big && rs.ReadBig {
			w.sch.park(t, "app:readall", kindApp)
			if a.dead() {
				return
			}
			body, berr := big.ReadAll()
			a.later(func() {
				dp.BigBody, dp.BigErr = body, berr
				w.ev(Event{K: "readall", T: a.spec.Name, N: n, B: clone(body), R: errStr(berr)})
			})
		}
		if errors.Is(err, mqtt.ErrClosed) {
			if rs.Backoff && backoff != nil {
				// the documented read loop ends on a nil channel; anything else keeps it spinning
				a.later(func() { w.ev(Event{K: "backoff", T: a.spec.Name, N: -2, R: d.Class}) })
			}
			return
		}
		if rs.Backoff && err != nil && !d.Big {
			t0 := time.Now()
			if backoff != nil {
				<-backoff
			}
			ms := int(time.Since(t0) / time.Millisecond)
			cls := d.Class
			a.later(func() { w.ev(Event{K: "backoff", T: a.spec.Name, N: ms, R: cls}) })
		}
	}
}
