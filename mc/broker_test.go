package mc

// Reference broker: session state per client identifier, reactions to every
// client packet as MQTT 3.1.1 prescribes. It is the "conforming broker" of
// the property statements and doubles as a monitor: a client packet the
// specification forbids is recorded as a protocol violation.

import (
	"fmt"
	"sort"
)

type fwd struct {
	QoS    int
	ID     uint16
	Topic  string
	Body   string
	Retain bool
	Dup    bool
	Conn   int
	Step   int
}

type bmsg struct {
	id     uint16
	qos    int
	topic  string
	body   []byte
	retain bool
	state  int // 0 not sent, 1 PUBLISH sent, 2 PUBREC received (PUBREL sent)
	sends  int
	idx    int // index in the scenario's inbound script
}

type bsession struct {
	clientID string
	awaitRel map[uint16]bool
	relBody  map[uint16]string
	out      []*bmsg
	subs     map[string]byte
}

type brokerConn struct {
	sess         *bsession
	connected    bool
	disconnected bool
	connect      *Packet
}

type broker struct {
	w        *World
	sessions map[string]*bsession
	forward  []fwd
	nextIn   int // next scripted inbound message
	// statistics for monitors
	violations []string
}

func newBroker(w *World) *broker {
	return &broker{w: w, sessions: map[string]*bsession{}}
}

func (b *broker) send(c *simConn, pkt []byte) {
	c.in = append(c.in, pkt...)
	c.sentIn = append(c.sentIn, pkt...)
	b.w.ev(Event{K: "bk-send", C: c.id, B: clone(pkt)})
}

func (b *broker) violation(c *simConn, msg string) {
	b.violations = append(b.violations, fmt.Sprintf("c%d: %s", c.id, msg))
	b.w.ev(Event{K: "bk-violation", C: c.id, S: msg})
	c.dead = true
}

// consume parses the complete packets the client has written so far and
// reacts. respond=false withholds every response (they are lost).
func (b *broker) consume(c *simConn, mode respMode) {
	for !c.dead {
		avail := c.out[c.brokerPos : len(c.out)-c.lost]
		n, err := splitPacket(avail)
		if err == errIncomplete {
			return
		}
		if err != nil {
			b.violation(c, "malformed packet: "+err.Error())
			return
		}
		raw := avail[:n]
		c.brokerPos += n
		p, err := decodeClientPacket(raw)
		if err != nil {
			b.violation(c, "malformed packet: "+err.Error())
			return
		}
		b.w.ev(Event{K: "bk-recv", C: c.id, B: clone(raw)})
		b.react(c, p, mode)
	}
}

type respMode struct {
	drop    bool   // responses are lost
	connack []byte // replace CONNACK by these bytes, then close
	suback  func(p *Packet) []byte
}

func (b *broker) react(c *simConn, p *Packet, mode respMode) {
	bc := c.bk
	send := func(pkt []byte) {
		if !mode.drop {
			b.send(c, pkt)
		}
	}
	if bc.disconnected {
		b.violation(c, "packet after DISCONNECT: "+p.String())
		return
	}
	if p.Type == tCONNECT {
		if bc.connected {
			b.violation(c, "second CONNECT")
			return
		}
		bc.connect = p
		if mode.connack != nil {
			send(mode.connack)
			// refusal: the broker closes the connection
			c.dead = true
			return
		}
		bc.connected = true
		cf := p.Connect
		sess := b.sessions[cf.ClientID]
		sp := byte(0)
		if cf.CleanSession || sess == nil {
			sess = &bsession{clientID: cf.ClientID, awaitRel: map[uint16]bool{}, subs: map[string]byte{}}
			b.sessions[cf.ClientID] = sess
		} else {
			sp = 1
		}
		bc.sess = sess
		send([]byte{tCONNACK << 4, 2, sp, 0})
		// retransmit unacknowledged outbound messages
		for _, m := range sess.out {
			switch m.state {
			case 1:
				m.sends++
				send(encPublish(m.qos, true, m.retain, m.id, m.topic, m.body))
			case 2:
				send(encAck(tPUBREL, m.id))
			}
		}
		if b.w.scn.Burst && !mode.drop {
			for b.nextIn < len(b.w.scn.Inbound) {
				b.inject(c)
			}
		}
		return
	}
	if !bc.connected {
		b.violation(c, "packet before CONNECT: "+p.String())
		return
	}
	sess := bc.sess
	if b.w.scn.Mute != nil && b.w.scn.Mute(p) {
		if p.Type == tSUBSCRIBE || p.Type == tUNSUBSCRIBE || p.Type == tPINGREQ {
			b.w.ev(Event{K: "bk-mute", C: c.id, N: p.Type}) // this request will get no answer on this connection
		}
		return
	}
	switch p.Type {
	case tPUBLISH:
		f := fwd{QoS: p.QoS, ID: p.ID, Topic: p.Topic, Body: string(p.Body), Retain: p.Retain, Dup: p.Dup, Conn: c.id, Step: b.w.step}
		switch p.QoS {
		case 0:
			b.forward = append(b.forward, f)
		case 1:
			b.forward = append(b.forward, f)
			send(encAck(tPUBACK, p.ID))
		case 2:
			if !sess.awaitRel[p.ID] {
				sess.awaitRel[p.ID] = true
				if sess.relBody == nil {
					sess.relBody = map[uint16]string{}
				}
				sess.relBody[p.ID] = p.Topic + "\x00" + string(p.Body)
				b.forward = append(b.forward, f)
			} else if sess.relBody[p.ID] != p.Topic+"\x00"+string(p.Body) {
				// a different message under an identifier the broker still holds:
				// possible only when the client lost that record
				b.w.ev(Event{K: "bk-id-clash", C: c.id, N: int(p.ID), S: p.Topic})
			}
			send(encAck(tPUBREC, p.ID))
		}
	case tPUBREL:
		delete(sess.awaitRel, p.ID)
		send(encAck(tPUBCOMP, p.ID))
	case tPUBACK:
		for i, m := range sess.out {
			if m.id == p.ID && m.qos == 1 && m.state == 1 {
				sess.out = append(sess.out[:i:i], sess.out[i+1:]...)
				break
			}
		}
	case tPUBREC:
		for _, m := range sess.out {
			if m.id == p.ID && m.qos == 2 && m.state >= 1 {
				m.state = 2
				send(encAck(tPUBREL, p.ID))
				break
			}
		}
	case tPUBCOMP:
		for i, m := range sess.out {
			if m.id == p.ID && m.qos == 2 && m.state == 2 {
				sess.out = append(sess.out[:i:i], sess.out[i+1:]...)
				break
			}
		}
	case tSUBSCRIBE:
		if mode.suback != nil {
			send(mode.suback(p))
			return
		}
		codes := make([]byte, len(p.Filters))
		for i, f := range p.Filters {
			codes[i] = p.Levels[i]
			if b.w.scn.SubFail != nil && b.w.scn.SubFail(f) {
				codes[i] = 0x80
			} else {
				sess.subs[f] = p.Levels[i]
			}
		}
		send(encSuback(p.ID, codes))
	case tUNSUBSCRIBE:
		for _, f := range p.Filters {
			delete(sess.subs, f)
		}
		send(encAck(tUNSUBACK, p.ID))
	case tPINGREQ:
		send([]byte{tPINGRESP << 4, 0})
	case tDISCONNECT:
		bc.disconnected = true
	}
}

// inject sends the next scripted inbound message on c.
func (b *broker) inject(c *simConn) {
	in := b.w.scn.Inbound[b.nextIn]
	if in.Raw != nil {
		b.w.ev(Event{K: "bk-inject", C: c.id, N: b.nextIn})
		b.nextIn++
		b.send(c, in.Raw)
		return
	}
	m := &bmsg{id: in.ID, qos: in.QoS, topic: in.Topic, body: in.Body, retain: in.Retain, idx: b.nextIn}
	b.nextIn++
	if m.qos > 0 {
		m.state = 1
		m.sends = 1
		c.bk.sess.out = append(c.bk.sess.out, m)
	}
	b.w.ev(Event{K: "bk-inject", C: c.id, N: m.idx})
	b.send(c, encPublish(m.qos, in.Dup, m.retain, m.id, m.topic, m.body))
}

// idFree reports whether the broker may use id for a new outbound message.
func (s *bsession) idFree(id uint16) bool {
	for _, m := range s.out {
		if m.id == id {
			return false
		}
	}
	return true
}

// copy deep-copies the broker state into world w (crash branches keep the
// broker alive, so this is only used for bookkeeping).
func (b *broker) summary() string {
	s := ""
	ids := make([]string, 0, len(b.sessions))
	for id := range b.sessions {
		ids = append(ids, id)
	}
	sort.Strings(ids)
	for _, id := range ids {
		sess := b.sessions[id]
		s += fmt.Sprintf("%s:rel%d out[", id, len(sess.awaitRel))
		for _, m := range sess.out {
			s += fmt.Sprintf("%x/%d ", m.id, m.state)
		}
		s += "]"
	}
	return s
}
