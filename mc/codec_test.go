package mc

// Reference MQTT 3.1.1 codec, written from the specification and independent
// of the library under test.

import (
	"errors"
	"fmt"
)

const (
	tCONNECT = 1 + iota
	tCONNACK
	tPUBLISH
	tPUBACK
	tPUBREC
	tPUBREL
	tPUBCOMP
	tSUBSCRIBE
	tSUBACK
	tUNSUBSCRIBE
	tUNSUBACK
	tPINGREQ
	tPINGRESP
	tDISCONNECT
)

var typeNames = [16]string{"RESERVED0", "CONNECT", "CONNACK", "PUBLISH", "PUBACK", "PUBREC", "PUBREL", "PUBCOMP", "SUBSCRIBE", "SUBACK", "UNSUBSCRIBE", "UNSUBACK", "PINGREQ", "PINGRESP", "DISCONNECT", "RESERVED15"}

// Packet is a decoded control packet.
type Packet struct {
	Type   int
	Flags  byte
	Raw    []byte // the complete packet
	ID     uint16
	Topic  string
	Body   []byte // PUBLISH payload
	Dup    bool
	QoS    int
	Retain bool
	// SUBSCRIBE / UNSUBSCRIBE
	Filters []string
	Levels  []byte
	// SUBACK
	Codes []byte
	// CONNECT
	Connect *ConnectFields
	// CONNACK
	SessionPresent bool
	ReturnCode     byte
}

type ConnectFields struct {
	ClientID     string
	KeepAlive    uint16
	CleanSession bool
	HasWill      bool
	WillTopic    string
	WillMessage  []byte
	WillQoS      int
	WillRetain   bool
	HasUser      bool
	User         string
	HasPassword  bool
	Password     []byte
}

func (p *Packet) String() string {
	switch p.Type {
	case tPUBLISH:
		return fmt.Sprintf("PUBLISH(q%d d%t r%t id=%#04x %q %dB)", p.QoS, p.Dup, p.Retain, p.ID, p.Topic, len(p.Body))
	case tPUBACK, tPUBREC, tPUBREL, tPUBCOMP, tUNSUBACK:
		return fmt.Sprintf("%s(%#04x)", typeNames[p.Type], p.ID)
	case tSUBSCRIBE, tUNSUBSCRIBE:
		return fmt.Sprintf("%s(%#04x %q)", typeNames[p.Type], p.ID, p.Filters)
	case tSUBACK:
		return fmt.Sprintf("SUBACK(%#04x %x)", p.ID, p.Codes)
	case tCONNACK:
		return fmt.Sprintf("CONNACK(sp=%t rc=%d)", p.SessionPresent, p.ReturnCode)
	}
	return typeNames[p.Type]
}

var errIncomplete = errors.New("incomplete packet")

// splitPacket returns the length of the first packet in b, errIncomplete when
// b holds only a prefix of one, or another error when malformed.
func splitPacket(b []byte) (int, error) {
	if len(b) < 2 {
		return 0, errIncomplete
	}
	size, mult := 0, 1
	for i := 1; ; i++ {
		if i > 4 {
			return 0, errors.New("remaining length exceeds 4 bytes")
		}
		if i >= len(b) {
			return 0, errIncomplete
		}
		size += int(b[i]&0x7f) * mult
		mult *= 128
		if b[i]&0x80 == 0 {
			if i+1+size > len(b) {
				return 0, errIncomplete
			}
			return i + 1 + size, nil
		}
	}
}

func takeString(b []byte) (string, []byte, error) {
	if len(b) < 2 {
		return "", nil, errors.New("string length prefix truncated")
	}
	n := int(b[0])<<8 | int(b[1])
	if len(b) < 2+n {
		return "", nil, errors.New("string exceeds packet")
	}
	return string(b[2 : 2+n]), b[2+n:], nil
}

// decodeClientPacket decodes one complete packet as sent by a client and
// applies the well-formedness rules of the specification.
func decodeClientPacket(raw []byte) (*Packet, error) {
	return decodePacket(raw, true)
}

func decodePacket(raw []byte, fromClient bool) (*Packet, error) {
	n, err := splitPacket(raw)
	if err != nil {
		return nil, err
	}
	if n != len(raw) {
		return nil, errors.New("trailing bytes")
	}
	p := &Packet{Type: int(raw[0] >> 4), Flags: raw[0] & 15, Raw: raw}
	// header size
	h := 2
	for raw[h-1]&0x80 != 0 {
		h++
	}
	// minimal length encoding
	if h > 2 && raw[h-1] == 0 {
		return nil, errors.New("remaining length not minimally encoded")
	}
	b := raw[h:]
	wantFlags := func(f byte) error {
		if p.Flags != f {
			return fmt.Errorf("%s with flags %#b, want %#b", typeNames[p.Type], p.Flags, f)
		}
		return nil
	}
	idOnly := func() error {
		if len(b) != 2 {
			return fmt.Errorf("%s with remaining length %d", typeNames[p.Type], len(b))
		}
		p.ID = uint16(b[0])<<8 | uint16(b[1])
		if p.ID == 0 {
			return errors.New("packet identifier zero")
		}
		return nil
	}
	switch p.Type {
	case tCONNECT:
		if !fromClient {
			return nil, errors.New("CONNECT from broker")
		}
		if err := wantFlags(0); err != nil {
			return nil, err
		}
		if len(b) < 10 || string(b[:7]) != "\x00\x04MQTT\x04" {
			return nil, errors.New("CONNECT protocol name/level")
		}
		cf := &ConnectFields{}
		fl := b[7]
		if fl&1 != 0 {
			return nil, errors.New("CONNECT reserved flag set")
		}
		cf.CleanSession = fl&2 != 0
		cf.HasWill = fl&4 != 0
		cf.WillQoS = int(fl >> 3 & 3)
		cf.WillRetain = fl&0x20 != 0
		cf.HasPassword = fl&0x40 != 0
		cf.HasUser = fl&0x80 != 0
		if !cf.HasWill && (cf.WillQoS != 0 || cf.WillRetain) {
			return nil, errors.New("CONNECT will QoS/retain without will flag")
		}
		if cf.WillQoS == 3 {
			return nil, errors.New("CONNECT will QoS 3")
		}
		if cf.HasPassword && !cf.HasUser {
			return nil, errors.New("CONNECT password without user name")
		}
		cf.KeepAlive = uint16(b[8])<<8 | uint16(b[9])
		rest := b[10:]
		var s string
		if s, rest, err = takeString(rest); err != nil {
			return nil, err
		}
		cf.ClientID = s
		if cf.HasWill {
			if cf.WillTopic, rest, err = takeString(rest); err != nil {
				return nil, err
			}
			if s, rest, err = takeString(rest); err != nil {
				return nil, err
			}
			cf.WillMessage = []byte(s)
		}
		if cf.HasUser {
			if cf.User, rest, err = takeString(rest); err != nil {
				return nil, err
			}
		}
		if cf.HasPassword {
			if s, rest, err = takeString(rest); err != nil {
				return nil, err
			}
			cf.Password = []byte(s)
		}
		if len(rest) != 0 {
			return nil, errors.New("CONNECT trailing bytes")
		}
		for _, s := range []string{cf.ClientID, cf.WillTopic, cf.User} {
			if !validUTF8(s) {
				return nil, errors.New("CONNECT ill-formed string")
			}
		}
		p.Connect = cf
	case tCONNACK:
		if fromClient {
			return nil, errors.New("CONNACK from client")
		}
		if len(b) != 2 {
			return nil, errors.New("CONNACK length")
		}
		p.SessionPresent = b[0]&1 != 0
		p.ReturnCode = b[1]
	case tPUBLISH:
		p.Dup = p.Flags&8 != 0
		p.QoS = int(p.Flags >> 1 & 3)
		p.Retain = p.Flags&1 != 0
		if p.QoS == 3 {
			return nil, errors.New("PUBLISH QoS 3")
		}
		if p.QoS == 0 && p.Dup {
			return nil, errors.New("PUBLISH QoS 0 with DUP")
		}
		var rest []byte
		if p.Topic, rest, err = takeString(b); err != nil {
			return nil, err
		}
		if p.Topic == "" || !validUTF8(p.Topic) {
			return nil, errors.New("PUBLISH topic empty or ill-formed")
		}
		if p.QoS > 0 {
			if len(rest) < 2 {
				return nil, errors.New("PUBLISH identifier truncated")
			}
			p.ID = uint16(rest[0])<<8 | uint16(rest[1])
			if p.ID == 0 {
				return nil, errors.New("packet identifier zero")
			}
			rest = rest[2:]
		}
		p.Body = rest
	case tPUBACK, tPUBREC, tPUBCOMP:
		if err := wantFlags(0); err != nil {
			return nil, err
		}
		if err := idOnly(); err != nil {
			return nil, err
		}
	case tPUBREL:
		if err := wantFlags(2); err != nil {
			return nil, err
		}
		if err := idOnly(); err != nil {
			return nil, err
		}
	case tSUBSCRIBE:
		if !fromClient {
			return nil, errors.New("SUBSCRIBE from broker")
		}
		if err := wantFlags(2); err != nil {
			return nil, err
		}
		if len(b) < 2 {
			return nil, errors.New("SUBSCRIBE truncated")
		}
		p.ID = uint16(b[0])<<8 | uint16(b[1])
		if p.ID == 0 {
			return nil, errors.New("packet identifier zero")
		}
		rest := b[2:]
		for len(rest) > 0 {
			var s string
			if s, rest, err = takeString(rest); err != nil {
				return nil, err
			}
			if len(rest) < 1 {
				return nil, errors.New("SUBSCRIBE level missing")
			}
			if rest[0] > 2 {
				return nil, errors.New("SUBSCRIBE level > 2")
			}
			if s == "" || !validUTF8(s) {
				return nil, errors.New("SUBSCRIBE filter empty or ill-formed")
			}
			p.Filters = append(p.Filters, s)
			p.Levels = append(p.Levels, rest[0])
			rest = rest[1:]
		}
		if len(p.Filters) == 0 {
			return nil, errors.New("SUBSCRIBE without filters")
		}
	case tSUBACK:
		if fromClient {
			return nil, errors.New("SUBACK from client")
		}
		if len(b) < 3 {
			return nil, errors.New("SUBACK truncated")
		}
		p.ID = uint16(b[0])<<8 | uint16(b[1])
		p.Codes = b[2:]
	case tUNSUBSCRIBE:
		if !fromClient {
			return nil, errors.New("UNSUBSCRIBE from broker")
		}
		if err := wantFlags(2); err != nil {
			return nil, err
		}
		if len(b) < 2 {
			return nil, errors.New("UNSUBSCRIBE truncated")
		}
		p.ID = uint16(b[0])<<8 | uint16(b[1])
		if p.ID == 0 {
			return nil, errors.New("packet identifier zero")
		}
		rest := b[2:]
		for len(rest) > 0 {
			var s string
			if s, rest, err = takeString(rest); err != nil {
				return nil, err
			}
			if s == "" || !validUTF8(s) {
				return nil, errors.New("UNSUBSCRIBE filter empty or ill-formed")
			}
			p.Filters = append(p.Filters, s)
		}
		if len(p.Filters) == 0 {
			return nil, errors.New("UNSUBSCRIBE without filters")
		}
	case tUNSUBACK:
		if fromClient {
			return nil, errors.New("UNSUBACK from client")
		}
		if err := idOnly(); err != nil {
			return nil, err
		}
	case tPINGREQ, tDISCONNECT:
		if !fromClient {
			return nil, errors.New(typeNames[p.Type] + " from broker")
		}
		if err := wantFlags(0); err != nil {
			return nil, err
		}
		if len(b) != 0 {
			return nil, errors.New(typeNames[p.Type] + " with payload")
		}
	case tPINGRESP:
		if fromClient {
			return nil, errors.New("PINGRESP from client")
		}
		if len(b) != 0 {
			return nil, errors.New("PINGRESP with payload")
		}
	default:
		return nil, fmt.Errorf("reserved packet type %d", p.Type)
	}
	return p, nil
}

// validUTF8 implements RFC 3629 well-formedness plus the MQTT ban on U+0000,
// without unicode/utf8.
func validUTF8(s string) bool {
	for i := 0; i < len(s); {
		c := s[i]
		switch {
		case c == 0:
			return false
		case c < 0x80:
			i++
		case c >= 0xc2 && c <= 0xdf:
			if i+1 >= len(s) || s[i+1]&0xc0 != 0x80 {
				return false
			}
			i += 2
		case c >= 0xe0 && c <= 0xef:
			if i+2 >= len(s) || s[i+1]&0xc0 != 0x80 || s[i+2]&0xc0 != 0x80 {
				return false
			}
			if c == 0xe0 && s[i+1] < 0xa0 { // overlong
				return false
			}
			if c == 0xed && s[i+1] > 0x9f { // surrogates
				return false
			}
			i += 3
		case c >= 0xf0 && c <= 0xf4:
			if i+3 >= len(s) || s[i+1]&0xc0 != 0x80 || s[i+2]&0xc0 != 0x80 || s[i+3]&0xc0 != 0x80 {
				return false
			}
			if c == 0xf0 && s[i+1] < 0x90 { // overlong
				return false
			}
			if c == 0xf4 && s[i+1] > 0x8f { // > U+10FFFF
				return false
			}
			i += 4
		default:
			return false
		}
	}
	return true
}

// ---- encoders (broker side) ----

func encLen(n int) []byte {
	var b []byte
	for {
		d := byte(n % 128)
		n /= 128
		if n > 0 {
			b = append(b, d|0x80)
		} else {
			return append(b, d)
		}
	}
}

func encPublish(qos int, dup, retain bool, id uint16, topic string, body []byte) []byte {
	h := byte(tPUBLISH<<4) | byte(qos<<1)
	if dup {
		h |= 8
	}
	if retain {
		h |= 1
	}
	n := 2 + len(topic) + len(body)
	if qos > 0 {
		n += 2
	}
	b := append([]byte{h}, encLen(n)...)
	b = append(b, byte(len(topic)>>8), byte(len(topic)))
	b = append(b, topic...)
	if qos > 0 {
		b = append(b, byte(id>>8), byte(id))
	}
	return append(b, body...)
}

func encAck(typ int, id uint16) []byte {
	h := byte(typ << 4)
	if typ == tPUBREL {
		h |= 2
	}
	return []byte{h, 2, byte(id >> 8), byte(id)}
}

func encSuback(id uint16, codes []byte) []byte {
	b := append([]byte{tSUBACK << 4}, encLen(2+len(codes))...)
	b = append(b, byte(id>>8), byte(id))
	return append(b, codes...)
}

func fnv1a(parts ...[]byte) uint32 {
	h := uint32(2166136261)
	for _, p := range parts {
		for _, c := range p {
			h ^= uint32(c)
			h *= 16777619
		}
	}
	return h
}

// refEncodeValue is the documented record layout.
func refEncodeValue(packet []byte, seq uint64) []byte {
	var le [8]byte
	for i := 0; i < 8; i++ {
		le[i] = byte(seq >> (8 * i))
	}
	sum := fnv1a(packet, le[:])
	out := append(append([]byte{}, packet...), le[:]...)
	return append(out, byte(sum>>24), byte(sum>>16), byte(sum>>8), byte(sum))
}

// refDecodeValue returns the packet and the sequence number, ok=false when the
// value is shorter than 12 bytes or fails the checksum.
func refDecodeValue(v []byte) (packet []byte, seq uint64, ok bool) {
	if len(v) < 12 {
		return nil, 0, false
	}
	n := len(v)
	sum := uint32(v[n-4])<<24 | uint32(v[n-3])<<16 | uint32(v[n-2])<<8 | uint32(v[n-1])
	if fnv1a(v[:n-4]) != sum {
		return nil, 0, false
	}
	for i := 0; i < 8; i++ {
		seq |= uint64(v[n-12+i]) << (8 * i)
	}
	return v[:n-12], seq, true
}
