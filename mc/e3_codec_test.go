package mc

import (
	"bytes"
	"context"
	"errors"
	"fmt"
	"net"
	"strings"
	"time"

	"github.com/pascaldekloe/mqtt"
)

var utf8Alphabet = []byte{0x00, 0x01, 0x41, 0x7f, 0x80, 0xbf, 0xc0, 0xc2, 0xe0, 0xa0, 0xed, 0xef, 0xf0, 0x90, 0xf4, 0xf5, 0xff}

// stringDomain enumerates every byte string of length <= 3 over the alphabet,
// every 4-byte string over the lead/continuation subset, and boundary lengths.
func stringDomain(thorough bool) []string {
	var out []string
	var rec func(prefix []byte, depth int, alpha []byte)
	rec = func(prefix []byte, depth int, alpha []byte) {
		out = append(out, string(prefix))
		if depth == 0 {
			return
		}
		for _, c := range alpha {
			rec(append(append([]byte{}, prefix...), c), depth-1, alpha)
		}
	}
	rec(nil, 3, utf8Alphabet)
	sub := []byte{0x41, 0x80, 0xbf, 0x90, 0xa0, 0xe0, 0xed, 0xf0, 0xf4}
	var rec4 func(prefix []byte)
	rec4 = func(prefix []byte) {
		if len(prefix) == 4 {
			out = append(out, string(prefix))
			return
		}
		for _, c := range sub {
			rec4(append(append([]byte{}, prefix...), c))
		}
	}
	rec4(nil)
	for _, n := range []int{1, 127, 128, 65535, 65536} {
		out = append(out, strings.Repeat("a", n))
		out = append(out, strings.Repeat("a", n-1)+"é"[:1]) // truncated sequence at the end
		if n >= 2 {
			out = append(out, strings.Repeat("a", n-2)+"é")
		}
	}
	return out
}

func refStringValid(s string) bool { return len(s) <= 65535 && validUTF8(s) }
func refTopicValid(s string) bool  { return s != "" && refStringValid(s) }

func init() {
	// C09: request methods
	e3tests["c09-requests"] = func(e *e3, thorough bool) {
		store := newPlainStore()
		cfg := baseConfig()
		cfg.PauseTimeout = 0
		cfg.AtLeastOnceMax, cfg.ExactlyOnceMax = 1, 1
		c, conn, stop, err := onlineClient(cfg, store)
		if err != nil {
			e.violate("C09", "setup", "%v", err)
			return
		}
		defer stop()
		strs := stringDomain(thorough)
		payloads := [][]byte{nil, {}, []byte("p"), bytes.Repeat([]byte("x"), 200)}
		type method struct {
			name string
			call func(msg []byte, s string) error
			typ  int
			qos  int
			ret  bool
		}
		await := func(ch <-chan error, err error) error {
			if err != nil {
				return err
			}
			for e := range ch {
				return e
			}
			return nil
		}
		methods := []method{
			{"Publish", func(m []byte, s string) error { return c.Publish(nil, m, s) }, tPUBLISH, 0, false},
			{"PublishRetained", func(m []byte, s string) error { return c.PublishRetained(nil, m, s) }, tPUBLISH, 0, true},
			{"PublishAtLeastOnce", func(m []byte, s string) error { return await(c.PublishAtLeastOnce(m, s)) }, tPUBLISH, 1, false},
			{"PublishAtLeastOnceRetained", func(m []byte, s string) error { return await(c.PublishAtLeastOnceRetained(m, s)) }, tPUBLISH, 1, true},
			{"PublishExactlyOnce", func(m []byte, s string) error { return await(c.PublishExactlyOnce(m, s)) }, tPUBLISH, 2, false},
			{"PublishExactlyOnceRetained", func(m []byte, s string) error { return await(c.PublishExactlyOnceRetained(m, s)) }, tPUBLISH, 2, true},
			{"Subscribe", func(m []byte, s string) error { return c.Subscribe(nil, s) }, tSUBSCRIBE, 2, false},
			{"SubscribeLimitAtMostOnce", func(m []byte, s string) error { return c.SubscribeLimitAtMostOnce(nil, s) }, tSUBSCRIBE, 0, false},
			{"SubscribeLimitAtLeastOnce", func(m []byte, s string) error { return c.SubscribeLimitAtLeastOnce(nil, s) }, tSUBSCRIBE, 1, false},
			{"Unsubscribe", func(m []byte, s string) error { return c.Unsubscribe(nil, s) }, tUNSUBSCRIBE, 0, false},
		}
		for mi, m := range methods {
			for si, s := range strs {
				if !e.mine() {
					continue
				}
				pl := payloads[(si+mi)%len(payloads)]
				if len(s) > 1000 && m.typ == tPUBLISH {
					pl = nil
				}
				conn.reset()
				store.mu.Lock()
				ops0 := store.ops
				store.mu.Unlock()
				err := m.call(pl, s)
				e.evals.Add(1)
				valid := refTopicValid(s)
				pk, rest := conn.packets()
				store.mu.Lock()
				ops1 := store.ops
				store.mu.Unlock()
				key := fmt.Sprintf("%s/%t/%d", m.name, valid, min(len(s), 5))
				e.distinct[key+fmt.Sprintf("/%x", s[:min(len(s), 3)])] = true
				if !valid {
					if !mqtt.IsDeny(err) {
						e.violate("C09", "invalid-not-denied#"+m.name, "%s(%q…, %d bytes) returned %v, want an IsDeny error", m.name, s[:min(len(s), 8)], len(s), err)
					}
					if len(pk) != 0 || len(rest) != 0 {
						e.violate("C09", "denied-but-written#"+m.name, "%s(%x) was denied yet %d packets/%d bytes were written", m.name, s[:min(len(s), 8)], len(pk), len(rest))
					}
					if ops1 != ops0 {
						e.violate("C09", "denied-but-persisted#"+m.name, "%s(%x) was denied yet the Persistence saw %d operations", m.name, s[:min(len(s), 8)], ops1-ops0)
					}
					if mqtt.VerifPoolAliased() {
						e.violate("C09", "denied-left-trace#"+m.name, "after the denied %s(%x) the packet buffer pool hands out one buffer twice", m.name, s[:min(len(s), 8)])
					}
					continue
				}
				if mqtt.IsDeny(err) {
					e.violate("C09", "valid-denied#"+m.name, "%s(%q…, %d bytes) was denied: %v", m.name, s[:min(len(s), 8)], len(s), err)
					continue
				}
				if err != nil {
					e.violate("C09", "valid-failed#"+m.name, "%s(%x, %d bytes): %v", m.name, s[:min(len(s), 8)], len(s), err)
					continue
				}
				if len(rest) != 0 || len(pk) == 0 {
					e.violate("C09", "packet-malformed#"+m.name, "%s(%x): wire holds %d packets and %d stray bytes", m.name, s[:min(len(s), 8)], len(pk), len(rest))
					continue
				}
				p := pk[0]
				if p.Type == -1 {
					e.violate("C09", "packet-malformed#"+m.name, "%s(%x): emitted packet is not well-formed: %s", m.name, s[:min(len(s), 8)], p.Topic)
					continue
				}
				ok := p.Type == m.typ
				switch m.typ {
				case tPUBLISH:
					ok = ok && p.Topic == s && bytes.Equal(p.Body, pl) && p.QoS == m.qos && p.Retain == m.ret && !p.Dup
					if m.qos == 2 {
						ok = ok && len(pk) == 2 && pk[1].Type == tPUBREL && pk[1].ID == p.ID
					} else {
						ok = ok && len(pk) == 1
					}
				case tSUBSCRIBE:
					ok = ok && len(pk) == 1 && len(p.Filters) == 1 && p.Filters[0] == s && p.Levels[0] == byte(m.qos)
				case tUNSUBSCRIBE:
					ok = ok && len(pk) == 1 && len(p.Filters) == 1 && p.Filters[0] == s
				}
				if !ok {
					e.violate("C09", "packet-fields#"+m.name, "%s(%x, %d-byte payload) emitted %v", m.name, s[:min(len(s), 8)], len(pl), pk)
				}
				if si < 3 && mi < 2 {
					e.sample("%s(%q, %d bytes) -> %s", m.name, s, len(pl), p)
				}
			}
		}
		// filter lists: none, and 1..3 filters with one invalid at each position
		if e.shard == 0 {
			if err := c.Subscribe(nil); !mqtt.IsDeny(err) {
				e.violate("C09", "no-filters-not-denied", "Subscribe() returned %v", err)
			}
			if err := c.Unsubscribe(nil); !mqtt.IsDeny(err) {
				e.violate("C09", "no-filters-not-denied", "Unsubscribe() returned %v", err)
			}
			e.evals.Add(2)
			for n := 1; n <= 3; n++ {
				for bad := -1; bad < n; bad++ {
					fs := make([]string, n)
					for i := range fs {
						fs[i] = fmt.Sprintf("f/%d", i)
						if i == bad {
							fs[i] = "a\x00b"
						}
					}
					conn.reset()
					err := c.Subscribe(nil, fs...)
					e.evals.Add(1)
					pk, _ := conn.packets()
					if bad >= 0 {
						if !mqtt.IsDeny(err) || len(pk) != 0 {
							e.violate("C09", "bad-filter-in-list", "Subscribe(%q) returned %v with %d packets", fs, err, len(pk))
						}
					} else if err != nil || len(pk) != 1 || !eqStrings(pk[0].Filters, fs) {
						e.violate("C09", "filter-list-fields", "Subscribe(%q) returned %v, wire %v", fs, err, pk)
					}
				}
			}
			// capacity probe: denied requests consumed nothing (limits are 1/1)
			for i := 0; i < 3; i++ {
				c.PublishAtLeastOnce([]byte("x"), "")
				c.PublishExactlyOnce([]byte("x"), "a\xffb")
			}
			if err := await(c.PublishAtLeastOnce([]byte("x"), "ok")); err != nil {
				e.violate("C09", "capacity-consumed-by-denied", "PublishAtLeastOnce after denied requests: %v", err)
			}
			if err := await(c.PublishExactlyOnce([]byte("x"), "ok")); err != nil {
				e.violate("C09", "capacity-consumed-by-denied", "PublishExactlyOnce after denied requests: %v", err)
			}
			// acknowledgements emitted by the read routine for boundary identifiers
			for _, id := range []uint16{1, 0x7fff, 0x8000, 0xffff} {
				for _, qos := range []int{1, 2} {
					conn.reset()
					conn.mu.Lock()
					conn.in = append(conn.in, encPublish(qos, false, false, id, "in", []byte("x"))...)
					conn.in = append(conn.in, encPublish(0, false, false, 0, "in", []byte("y"))...) // makes the reader come back
					if qos == 2 {
						conn.in = append(conn.in, encAck(tPUBREL, id)...)
						conn.in = append(conn.in, encPublish(0, false, false, 0, "in", []byte("z"))...)
					}
					conn.cond.Broadcast()
					conn.mu.Unlock()
					want := [][]byte{encAck(tPUBACK, id)}
					if qos == 2 {
						want = [][]byte{encAck(tPUBREC, id), encAck(tPUBCOMP, id)}
					}
					var got []byte
					for i := 0; i < 2000; i++ {
						conn.mu.Lock()
						got = clone(conn.out)
						conn.mu.Unlock()
						if len(got) >= 4*len(want) {
							break
						}
						time.Sleep(time.Millisecond)
					}
					e.evals.Add(1)
					if !bytes.Equal(got, bytes.Join(want, nil)) {
						e.violate("C09", "ack-packet", "inbound QoS %d PUBLISH %#04x: the client wrote %x, want %x", qos, id, got, bytes.Join(want, nil))
					}
				}
			}
			// Ping and Disconnect
			conn.reset()
			if err := c.Ping(nil); err != nil {
				e.violate("C09", "ping", "Ping: %v", err)
			}
			pk, _ := conn.packets()
			if len(pk) != 1 || pk[0].Type != tPINGREQ {
				e.violate("C09", "ping-packet", "Ping emitted %v", pk)
			}
			e.evals.Add(3)
		}
	}

	// C09: remaining-length boundaries (payload sizes across every width)
	// C09: requests accepted while the client is down go out later, from the
	// retransmission of the next connect: each still decodes to its request
	// (a first transmission carries no DUP flag, whatever its position in
	// the backlog)
	e3tests["c09-backlog"] = func(e *e3, thorough bool) {
		maxN := 3
		if thorough {
			maxN = 5
		}
		for n1 := 0; n1 <= maxN; n1++ {
			for n2 := 0; n2 <= maxN; n2++ {
				for _, volatile := range []bool{true, false} {
					if n1+n2 == 0 || !e.mine() {
						continue
					}
					e.evals.Add(1)
					e.distinct[fmt.Sprintf("backlog/%d/%d/%t", n1, n2, volatile)] = true
					cfg := baseConfig()
					cfg.PauseTimeout = 0
					cfg.AtLeastOnceMax, cfg.ExactlyOnceMax = maxN+1, maxN+1 // the backlog fits: a refusal would be ErrMax, not this property
					conn := newLoopConn()
					dials := 0
					cfg.Dialer = func(ctx context.Context) (net.Conn, error) {
						dials++
						if dials == 1 {
							return nil, errors.New("e3: first dial fails")
						}
						return conn, nil
					}
					var c *mqtt.Client
					var err error
					if volatile {
						c, err = mqtt.VolatileSession("e3", &cfg)
					} else {
						c, err = mqtt.InitSession("e3", newPlainStore(), &cfg)
					}
					if err != nil {
						e.violate("C09", "setup", "%v", err)
						return
					}
					if _, _, err := c.ReadSlices(); err == nil {
						e.violate("C09", "setup", "first ReadSlices succeeded although the dial failed")
					}
					type req struct {
						qos     int
						topic   string
						payload []byte
					}
					var reqs []req
					var levels []int
					for a, b := n1, n2; a > 0 || b > 0; {
						if a > 0 {
							levels = append(levels, 1)
							a--
						}
						if b > 0 {
							levels = append(levels, 2)
							b--
						}
					}
					for i, lvl := range levels {
						r := req{qos: lvl, topic: fmt.Sprintf("b/%d", i), payload: []byte(fmt.Sprintf("backlog-%d", i))}
						var perr error
						if r.qos == 1 {
							_, perr = c.PublishAtLeastOnce(r.payload, r.topic)
						} else {
							_, perr = c.PublishExactlyOnce(r.payload, r.topic)
						}
						if perr != nil {
							e.violate("C09", "backlog-refused", "publish %d (QoS %d) while down: %v", i, r.qos, perr)
							continue
						}
						reqs = append(reqs, r)
					}
					done := make(chan struct{})
					go func() {
						defer close(done)
						for {
							if _, _, err := c.ReadSlices(); err != nil {
								return
							}
						}
					}()
					select {
					case <-c.Online():
					case <-time.After(e3Stall / 4):
						e.violate("C09", "backlog-never-online", "%d+%d publishes enqueued while down: no Online after the second dial", n1, n2)
					}
					pk, rest := conn.packets()
					var pubs []*Packet
					for _, p := range pk {
						if p.Type == tPUBLISH {
							pubs = append(pubs, p)
						}
					}
					if len(rest) != 0 || len(pubs) != len(reqs) {
						e.violate("C09", "backlog-count", "%d+%d publishes enqueued while down: %d PUBLISH packets on the wire before Online, rest %x", n1, n2, len(pubs), trunc(rest))
					}
					// per level in request order
					for lvl := 1; lvl <= 2; lvl++ {
						var want []req
						var got []*Packet
						for _, r := range reqs {
							if r.qos == lvl {
								want = append(want, r)
							}
						}
						for _, p := range pubs {
							if p.QoS == lvl {
								got = append(got, p)
							}
						}
						for i := range want {
							if i >= len(got) {
								break
							}
							g := got[i]
							if g.Topic != want[i].topic || !bytes.Equal(g.Body, want[i].payload) || g.Retain || g.Raw[0]&8 != 0 {
								e.violate("C09", "backlog-decodes-differently", "publish %d of level %d enqueued while down (topic %q, %d bytes, first transmission) went out as %s (first byte %#x)", i, lvl, want[i].topic, len(want[i].payload), g, g.Raw[0])
							}
						}
					}
					e.sample("%d+%d enqueued while down (volatile %t) -> %d PUBLISH", n1, n2, volatile, len(pubs))
					go c.Close()
					select {
					case <-done:
					case <-time.After(e3Stall / 4):
						e.violate("C09", "close-never-returns#e3", "Close did not end the read routine")
					}
				}
			}
		}
	}

	e3tests["c09-sizes"] = func(e *e3, thorough bool) {
		cfg := baseConfig()
		cfg.PauseTimeout = 0
		c, conn, stop, err := onlineClient(cfg, nil)
		if err != nil {
			e.violate("C09", "setup", "%v", err)
			return
		}
		defer stop()
		targets := []int{0, 1, 2, 126, 127, 128, 129, 16382, 16383, 16384, 16385, 2097150, 2097151, 2097152, 2097153}
		// over the limit: denied before anything is copied (the zero buffer is never touched)
		targets = append(targets, 268435456, 268435457, 268435458)
		if thorough {
			targets = append(targets, 268435454, 268435455)
		}
		topic := "t"
		big := make([]byte, 268435470)
		for _, rl := range targets {
			for _, qos := range []int{0, 1, 2} {
				if !e.mine() {
					continue
				}
				n := rl - 2 - len(topic)
				if qos > 0 {
					n -= 2
				}
				if n < 0 {
					continue
				}
				conn.reset()
				var err error
				if qos == 0 {
					err = c.Publish(nil, big[:n], topic)
				} else {
					var ch <-chan error
					if qos == 1 {
						ch, err = c.PublishAtLeastOnceRetained(big[:n], topic)
					} else {
						ch, err = c.PublishExactlyOnce(big[:n], topic)
					}
					if err == nil && rl <= 268435455 {
						for range ch {
						}
					}
				}
				e.evals.Add(1)
				e.distinct[fmt.Sprintf("rl=%d/q%d", rl, qos)] = true
				if rl > 268435455 {
					if !mqtt.IsDeny(err) {
						e.violate("C09", "oversize-not-denied", "remaining length %d: %v", rl, err)
					}
					if mqtt.VerifPoolAliased() {
						e.violate("C09", "denied-left-trace#size", "after the denied publish with remaining length %d (QoS %d) the packet buffer pool hands out one buffer twice", rl, qos)
					}
					continue
				}
				if err != nil {
					e.violate("C09", "size-refused", "remaining length %d (QoS %d) refused: %v", rl, qos, err)
					continue
				}
				conn.mu.Lock()
				out := conn.out
				n2, serr := splitPacket(out)
				conn.mu.Unlock()
				if serr != nil || n2 != len(out) && qos == 0 {
					e.violate("C09", "size-encoding", "remaining length %d: wire does not hold one packet (%v, %d of %d bytes)", rl, serr, n2, len(out))
					continue
				}
				hdr := 1 + len(encLen(rl))
				if n2 != hdr+rl || !bytes.Equal(out[1:hdr], encLen(rl)) {
					e.violate("C09", "size-encoding", "remaining length %d encoded as %x", rl, out[1:min(6, len(out))])
				}
				e.sample("payload %d bytes, QoS %d -> remaining length %x", n, qos, out[1:hdr])
			}
		}
	}

	// C09: CONNECT composition over the Config product
	e3tests["c09-connect"] = func(e *e3, thorough bool) {
		users := []string{"", "u", strings.Repeat("u", 65535), strings.Repeat("u", 65536), "a\x00", "\xff"}
		passwords := [][]byte{nil, {}, []byte("pw"), make([]byte, 65535), make([]byte, 65536)}
		willTopics := []string{"", "w", "w\x00", strings.Repeat("w", 65535), strings.Repeat("w", 65536), "\xc0\x80"}
		willMsgs := [][]byte{nil, {}, []byte("bye"), make([]byte, 65535), make([]byte, 65536)}
		ids := []string{"", "id", strings.Repeat("i", 65535)}
		dial := func(ctx context.Context) (net.Conn, error) { return nil, errors.New("unused") }
		for _, user := range users {
			for _, pw := range passwords {
				for _, wt := range willTopics {
					for _, wm := range willMsgs {
						for flags := 0; flags < 16; flags++ {
							for _, ka := range []uint16{0, 1, 65535} {
								if !e.mine() {
									continue
								}
								for _, id := range ids {
									cfg := mqtt.Config{Dialer: dial, UserName: user, Password: pw, KeepAlive: ka, CleanSession: flags&1 != 0}
									cfg.Will.Topic, cfg.Will.Message = wt, wm
									cfg.Will.Retain, cfg.Will.AtLeastOnce, cfg.Will.ExactlyOnce = flags&2 != 0, flags&4 != 0, flags&8 != 0
									e.evals.Add(1)
									verr := mqtt.VerifConfigValid(&cfg)
									valid := refStringValid(user) && len(pw) <= 65535 && len(wm) <= 65535 &&
										(wm != nil && refTopicValid(wt) || wm == nil && refStringValid(wt))
									e.distinct[fmt.Sprintf("%t/%d/%d/%d/%d/%d", valid, len(user), len(pw), len(wt), len(wm), flags)] = true
									if valid != (verr == nil) {
										e.violate("C09", "config-validation", "Config{user %d bytes, password %d, will topic %q…(%d), will message %d}: valid()=%v, reference says valid=%t", len(user), len(pw), wt[:min(len(wt), 4)], len(wt), len(wm), verr, valid)
										continue
									}
									if !valid {
										continue
									}
									raw := mqtt.VerifNewCONNREQ(&cfg, []byte(id))
									p, err := decodeClientPacket(raw)
									if err != nil {
										e.violate("C09", "connect-malformed", "CONNECT for Config{user %q… password %d will %d/%d flags %#x}: %v", user[:min(len(user), 4)], len(pw), len(wt), len(wm), flags, err)
										continue
									}
									cf := p.Connect
									wq := 0
									if cfg.Will.ExactlyOnce {
										wq = 2
									} else if cfg.Will.AtLeastOnce {
										wq = 1
									}
									ok := cf.ClientID == id && cf.KeepAlive == ka && cf.CleanSession == cfg.CleanSession &&
										cf.HasWill == (wm != nil) && cf.HasUser == (user != "" || pw != nil) && cf.User == user &&
										cf.HasPassword == (pw != nil) && bytes.Equal(cf.Password, pw)
									if wm != nil {
										ok = ok && cf.WillTopic == wt && bytes.Equal(cf.WillMessage, wm) && cf.WillRetain == cfg.Will.Retain && cf.WillQoS == wq
									}
									if !ok {
										e.violate("C09", "connect-fields", "CONNECT does not decode to the Config: user %d/%d password %d/%d will %d flags %#x -> %+v", len(user), len(cf.User), len(pw), len(cf.Password), len(wm), flags, *cf)
									}
									if e.evals.Load() < 4 {
										e.sample("Config flags=%#x user=%q -> %d-byte CONNECT", flags, user, len(raw))
									}
								}
							}
						}
					}
				}
			}
		}
		// illegal client identifiers are refused by the constructors
		if e.shard == 0 {
			for _, id := range []string{"a\x00", "\xff", strings.Repeat("i", 65536)} {
				cfg := mqtt.Config{Dialer: dial}
				if _, err := mqtt.VolatileSession(id, &cfg); err == nil {
					e.violate("C09", "client-id-accepted", "VolatileSession accepted the client identifier %q…", id[:2])
				}
				e.evals.Add(1)
			}
		}
	}
}
