package mc

import (
	"bytes"
	"fmt"
	"net"
	"sort"
	"strings"

	"github.com/pascaldekloe/mqtt"
)

type fsOp struct {
	kind string // save delete
	key  uint
	val  []byte
	bufs int // number of buffers the value is split into
}

func (o fsOp) String() string {
	if o.kind == "save" {
		return fmt.Sprintf("Save(%#x,%dB/%d)", o.key, len(o.val), o.bufs)
	}
	return fmt.Sprintf("Delete(%#x)", o.key)
}

func splitBufs(v []byte, n int) net.Buffers {
	if n <= 1 || len(v) < n {
		return net.Buffers{v}
	}
	var out net.Buffers
	step := len(v) / n
	for i := 0; i < n-1; i++ {
		out = append(out, v[i*step:(i+1)*step])
	}
	return append(out, v[(n-1)*step:])
}

// runFS executes ops on the store over v; it returns how many operations
// completed, their results and whether the process stopped.
func runFS(v *vfs, ops []fsOp) (done int, errs []error, stopped bool) {
	old := mqtt.VerifSetOS(v.table())
	defer mqtt.VerifSetOS(old)
	defer func() {
		if r := recover(); r != nil {
			if _, ok := r.(vfsStop); !ok {
				panic(r)
			}
			stopped = true
		}
	}()
	st := mqtt.FileSystem("/d")
	for _, op := range ops {
		var err error
		if op.kind == "save" {
			err = st.Save(op.key, splitBufs(op.val, op.bufs))
		} else {
			err = st.Delete(op.key)
		}
		errs = append(errs, err)
		done++
	}
	return
}

// observe loads every key of interest from a fresh store on the directory.
func observe(v *vfs, keys []uint) (vals map[uint][]byte, list []uint, err error) {
	w := v.clone()
	old := mqtt.VerifSetOS(w.table())
	defer mqtt.VerifSetOS(old)
	st := mqtt.FileSystem("/d/")
	vals = map[uint][]byte{}
	for _, k := range keys {
		b, e := st.Load(k)
		if e != nil {
			return nil, nil, fmt.Errorf("Load(%#x): %v", k, e)
		}
		vals[k] = b
	}
	list, err = st.List()
	sort.Slice(list, func(i, j int) bool { return list[i] < list[j] })
	return
}

func fsVal(tag string, n int) []byte {
	b := make([]byte, n)
	for i := range b {
		b[i] = byte('A' + (i*13+len(tag)*7)%26)
	}
	copy(b, tag)
	return b
}

func init() {
	e3tests["c19-stops"] = func(e *e3, thorough bool) {
		sizes := []int{12, 100, 4096}
		if thorough {
			sizes = append(sizes, 3<<20)
		}
		keys := []uint{0, 0x8000, 0x1ffff}
		var histories [][]fsOp
		for _, k := range keys {
			for _, n := range sizes {
				v1, v2, v3 := fsVal("first", n), fsVal("second-longer", n+n/2+1), fsVal("3rd", max(12, n/2))
				other := fsOp{"save", k ^ 0x4001, fsVal("other", 20), 1}
				histories = append(histories,
					[]fsOp{other, {"save", k, v1, 1}},
					[]fsOp{other, {"save", k, v1, 2}, {"save", k, v2, 3}},
					[]fsOp{other, {"save", k, v2, 1}, {"save", k, v3, 2}, {"save", k, v3, 1}},
					[]fsOp{other, {"save", k, v1, 2}, {"delete", k, nil, 0}, {"save", k, v2, 1}},
					[]fsOp{other, {"delete", k, nil, 0}, {"save", k, v1, 1}, {"delete", k, nil, 0}, {"delete", k, nil, 0}},
				)
			}
		}
		for _, h := range histories {
			if !e.mine() {
				continue
			}
			// reference run: count primitive operations
			ref := newVFS()
			_, errs, _ := runFS(ref, h)
			for i, err := range errs {
				if err != nil {
					e.violate("C19", "plain-history-failed", "%v: %s returned %v without any fault", h, h[i], err)
				}
			}
			total := ref.nOps
			kinds := ref.opKinds
			e.sample("%v -> %d primitive operations: %s", h, total, strings.Join(ref.log, "; "))
			allKeys := map[uint]bool{}
			for _, op := range h {
				allKeys[op.key] = true
			}
			var ks []uint
			for k := range allKeys {
				ks = append(ks, k)
			}
			sort.Slice(ks, func(i, j int) bool { return ks[i] < ks[j] })
			// model: value per key after each completed op
			check := func(label string, v *vfs, done int, errs []error, stopped bool) {
				e.evals.Add(1)
				model := map[uint][]byte{}
				for i := 0; i < done; i++ {
					if errs[i] != nil {
						continue // a failed operation leaves the previous value
					}
					if h[i].kind == "save" {
						model[h[i].key] = h[i].val
					} else {
						delete(model, h[i].key)
					}
				}
				vals, list, err := observe(v, ks)
				if err != nil {
					e.violate("C19", "load-fails-after-stop", "%v %s: %v", h, label, err)
					return
				}
				for _, k := range ks {
					got := vals[k]
					okPrev := bytes.Equal(got, model[k]) && (got == nil) == (model[k] == nil)
					okNew := false
					if stopped && done < len(h) && h[done].key == k {
						if h[done].kind == "save" {
							okNew = bytes.Equal(got, h[done].val) && got != nil
						} else {
							okNew = got == nil
						}
					}
					if !okPrev && !okNew {
						e.violate("C19", "torn-value", "%v %s: key %#x loads %d bytes (%q…), neither the previous (%d bytes) nor the new value", h, label, k, len(got), got[:min(len(got), 12)], len(model[k]))
					}
				}
				// the process restarts on the same directory and carries on: a leftover of
				// the interrupted operation must not leak into later values
				if stopped {
					for _, k := range ks {
						for _, nv := range [][]byte{fsVal("after", 12), fsVal("after-restart-long", 70)} {
							v2 := v.clone()
							_, errs2, _ := runFS(v2, []fsOp{{"save", k, nv, 2}})
							e.evals.Add(1)
							if errs2[0] != nil {
								e.violate("C19", "save-fails-after-restart", "%v %s, then Save(%#x): %v", h, label, k, errs2[0])
								continue
							}
							vals2, _, err := observe(v2, ks)
							if err != nil || !bytes.Equal(vals2[k], nv) {
								e.violate("C19", "leftover-leaks-into-value", "%v %s, then Save(%#x, %d bytes) after the restart: key loads %d bytes %q…", h, label, k, len(nv), len(vals2[k]), vals2[k][:min(len(vals2[k]), 16)])
							}
						}
					}
				}
				for _, k := range list {
					if b, ok := vals[k]; ok && b == nil {
						e.violate("C19", "list-unloadable", "%v %s: List reports %#x which Load cannot return", h, label, k)
					}
				}
				for _, k := range ks {
					if vals[k] != nil {
						found := false
						for _, l := range list {
							if l == k {
								found = true
							}
						}
						if !found {
							e.violate("C19", "list-misses-key", "%v %s: key %#x loads but List omits it", h, label, k)
						}
					}
				}
			}
			for n := 1; n <= total; n++ {
				for _, exit := range []bool{false, true} {
					if kinds[n-1] == "write" && !exit {
						// inside the data write at every byte count
						size := 0
						fmt.Sscanf(ref.log[indexOfOp(ref, n)], "write %s %d", new(string), &size)
						counts := []int{}
						if size <= 5000 {
							for b := 0; b < size; b++ {
								counts = append(counts, b)
							}
						} else {
							stride := size / 64
							for b := 0; b < size; b += stride {
								counts = append(counts, b)
							}
							counts = append(counts, 1, size-1, 4095, 4096, 4097, 65535, 65536)
						}
						for _, b := range counts {
							v := newVFS()
							v.stopAt, v.stopBytes = n, b
							done, errs, stopped := runFS(v, h)
							e.distinct[fmt.Sprintf("%d/%d/w", len(h), n)] = true
							check(fmt.Sprintf("stopped inside primitive %d (write) after %d bytes", n, b), v, done, errs, stopped)
						}
						continue
					}
					v := newVFS()
					v.stopAt, v.stopExit = n, exit
					done, errs, stopped := runFS(v, h)
					e.distinct[fmt.Sprintf("%d/%d/%t", len(h), n, exit)] = true
					check(fmt.Sprintf("stopped at primitive %d (%s, exit=%t)", n, kinds[n-1], exit), v, done, errs, stopped)
				}
				// error injection at this primitive
				for _, fb := range []int{0, 1, 11} {
					if kinds[n-1] != "write" && fb != 0 {
						continue
					}
					v := newVFS()
					v.failAt, v.failBytes = n, fb
					done, errs, stopped := runFS(v, h)
					e.distinct[fmt.Sprintf("%d/%d/e%d", len(h), n, fb)] = true
					// which operation was hit?
					check(fmt.Sprintf("error injected at primitive %d (%s, %d bytes)", n, kinds[n-1], fb), v, done, errs, stopped)
					// a Save that returned nil had its content flushed before it became visible
					checkFlushOrder(e, h, v, errs)
				}
			}
			checkFlushOrder(e, h, ref, errs)
		}
	}
}

func indexOfOp(v *vfs, n int) int {
	// log index of the n-th primitive: reads do not occur in these histories, log and ops align except readdir/open
	cnt := 0
	for i, l := range v.log {
		_ = l
		cnt++
		if cnt == n {
			return i
		}
	}
	return len(v.log) - 1
}

// checkFlushOrder: for every Save that returned nil, the log shows the data
// writes and the sync on the spool file before the rename, and no write to
// the key's own path.
func checkFlushOrder(e *e3, h []fsOp, v *vfs, errs []error) {
	for _, l := range v.log {
		if strings.HasPrefix(l, "write ") && !strings.Contains(l, ".spool") {
			e.violate("C19", "write-in-place", "%v: %q writes to a key file directly", h, l)
		}
		if strings.HasPrefix(l, "create ") && !strings.Contains(l, ".spool") {
			e.violate("C19", "write-in-place", "%v: %q creates a key file directly", h, l)
		}
	}
	lastSync := map[string]int{}
	lastWrite := map[string]int{}
	for i, l := range v.log {
		f := strings.Fields(l)
		switch f[0] {
		case "write":
			lastWrite[f[1]] = i
		case "sync":
			if !strings.Contains(l, "(error)") {
				lastSync[f[1]] = i
			}
		case "rename":
			if strings.Contains(l, "(error)") {
				continue
			}
			w, okw := lastWrite[f[1]]
			s, oks := lastSync[f[1]]
			if !oks || okw && s < w {
				e.violate("C19", "visible-before-flushed", "%v: %q without a successful sync after the last write (log %v)", h, l, v.log)
			}
			delete(lastWrite, f[1])
			delete(lastSync, f[1])
		}
	}
}
