package mc

import (
	"bytes"
	"context"
	"errors"
	"fmt"
	"net"
	"sync"
	"time"

	"github.com/pascaldekloe/mqtt"
)

func init() {
	// C17: identifier spaces over long histories and the request slot limit
	e3tests["c17-longrun"] = func(e *e3, thorough bool) {
		type cfgT struct{ w1, w2 int }
		cfgs := []cfgT{{1, 1}, {2, 3}}
		if thorough {
			cfgs = append(cfgs, cfgT{16384, 16384}, cfgT{-1, 1 << 20})
		}
		for ci, cf := range cfgs {
			if ci%e.nshards != e.shard {
				continue
			}
			cfg := baseConfig()
			cfg.PauseTimeout = 0
			cfg.AtLeastOnceMax, cfg.ExactlyOnceMax = cf.w1, cf.w2
			c, conn, stop, err := onlineClient(cfg, newPlainStore())
			if err != nil {
				e.violate("C17", "setup", "%v", err)
				return
			}
			n := 2*16384 + 5
			for lvl := 1; lvl <= 2; lvl++ {
				var prev uint16
				for i := 0; i < n; i++ {
					conn.reset()
					var ch <-chan error
					var err error
					if lvl == 1 {
						ch, err = c.PublishAtLeastOnce([]byte("x"), "t")
					} else {
						ch, err = c.PublishExactlyOnce([]byte("x"), "t")
					}
					e.evals.Add(1)
					if err != nil {
						e.violate("C17", "longrun-refused", "publish %d of level %d refused: %v (window %d/%d, every earlier one acknowledged)", i, lvl, err, cf.w1, cf.w2)
						break
					}
					for range ch {
					}
					pk, _ := conn.packets()
					if len(pk) == 0 || pk[0].Type != tPUBLISH {
						e.violate("C17", "longrun-wire", "publish %d of level %d: wire %v", i, lvl, pk)
						break
					}
					id := pk[0].ID
					space := uint16(0x8000)
					if lvl == 2 {
						space = 0xc000
					}
					if id == 0 || id&0xc000 != space {
						e.violate("C17", "identifier-out-of-space", "publish %d of level %d carries %#04x", i, lvl, id)
					}
					if i > 0 && id != space|((prev+1)&0x3fff) {
						e.violate("C17", "identifier-sequence", "publish %d of level %d carries %#04x after %#04x", i, lvl, id, prev)
					}
					prev = id
					if i%4096 == 0 {
						e.distinct[fmt.Sprintf("w%d/%d l%d i%d", cf.w1, cf.w2, lvl, i)] = true
					}
				}
			}
			e.sample("windows %d/%d: %d acknowledged publishes per level, identifiers wrap twice", cf.w1, cf.w2, n)
			stop()
		}
		// full window without acknowledgements: limit+1 gets ErrMax, identifiers distinct
		// configured limits beyond the 14-bit identifier space (and negative
		// ones) mean the whole space, per level independently
		type winCase struct{ w1, w2, eff1, eff2 int }
		for wi, wc := range []winCase{{1, 1, 1, 1}, {2, 2, 2, 2}, {3, 3, 3, 3}, {16384, 16384, 16384, 16384},
			{20000, 5, 16384, 5}, {5, 20000, 5, 16384}, {16385, 16385, 16384, 16384}, {-1, 2, 16384, 2}, {2, -1, 2, 16384}} {
			if (wi+1)%e.nshards != e.shard {
				continue
			}
			cfg := baseConfig()
			cfg.PauseTimeout = 0
			cfg.AtLeastOnceMax, cfg.ExactlyOnceMax = wc.w1, wc.w2
			e.at("full windows %d/%d", wc.w1, wc.w2)
			c, conn, stop, err := onlineClient(cfg, newPlainStore())
			if err != nil {
				continue
			}
			conn.mu.Lock()
			conn.mute = true
			conn.discard = true
			conn.mu.Unlock()
			conn.reset()
			for lvl := 1; lvl <= 2; lvl++ {
				win := wc.eff1
				if lvl == 2 {
					win = wc.eff2
				}
				for i := 0; i <= win; i++ {
					var err error
					if lvl == 1 {
						_, err = c.PublishAtLeastOnceRetained(nil, "t")
					} else {
						_, err = c.PublishExactlyOnceRetained(nil, "t")
					}
					e.evals.Add(1)
					if i < win && err != nil {
						e.violate("C17", "window-refused-early", "publish %d of level %d refused with limits %d/%d: %v", i, lvl, wc.w1, wc.w2, err)
						break
					}
					if i == win && !errors.Is(err, mqtt.ErrMax) {
						e.violate("C17", "window-exceeded", "publish %d of level %d with limits %d/%d returned %v, want ErrMax", i, lvl, wc.w1, wc.w2, err)
					}
				}
			}
			pk, _ := conn.packets()
			seen := map[uint16]bool{}
			for _, p := range pk {
				if p.Type == tPUBLISH {
					if seen[p.ID] {
						e.violate("C17", "identifier-reused-in-flight", "identifier %#04x on two unacknowledged transfers (limits %d/%d)", p.ID, wc.w1, wc.w2)
					}
					seen[p.ID] = true
				}
			}
			e.distinct[fmt.Sprintf("full-window-%d/%d", wc.w1, wc.w2)] = true
			stop()
		}
		// refusals while the window is full do not consume identifiers: after a
		// whole identifier space of refusals and one acknowledgement the next
		// publish must not get the identifier of the transfer still in flight
		if e.shard == 0 {
			cfg := baseConfig()
			cfg.PauseTimeout = 0
			cfg.AtLeastOnceMax, cfg.ExactlyOnceMax = 2, 2
			e.at("refusals around the identifier space, window 2")
			store := newPlainStore()
			c, conn, stop, err := onlineClient(cfg, store)
			if err == nil {
				conn.mu.Lock()
				conn.mute = true
				conn.mu.Unlock()
				conn.reset()
				c.PublishAtLeastOnce([]byte("a"), "t")
				c.PublishAtLeastOnce([]byte("b"), "t")
				pk, _ := conn.packets()
				if len(pk) == 2 && pk[0].Type == tPUBLISH && pk[1].Type == tPUBLISH {
					refused := 0
					for i := 0; i < 16383; i++ {
						if _, err := c.PublishAtLeastOnce([]byte("r"), "t"); errors.Is(err, mqtt.ErrMax) {
							refused++
						}
						e.evals.Add(1)
					}
					conn.mu.Lock()
					conn.in = append(conn.in, encAck(tPUBACK, pk[0].ID)...)
					conn.cond.Broadcast()
					conn.mu.Unlock()
					gone := false
					for i := 0; i < 5000 && !gone; i++ {
						if v, _ := store.Load(uint(pk[0].ID)); v == nil {
							gone = true
						} else {
							time.Sleep(time.Millisecond)
						}
					}
					// the slot is free a moment after the record is deleted
					var perr error = mqtt.ErrMax
					time.Sleep(50 * time.Millisecond)
					for i := 0; gone && i < 5000 && errors.Is(perr, mqtt.ErrMax); i++ {
						if i > 0 {
							time.Sleep(time.Millisecond)
						}
						_, perr = c.PublishAtLeastOnce([]byte("c"), "t")
					}
					if gone && perr == nil && refused == 16383 {
						// two transfers in flight: the record of the second one and a new one
						keys, _ := store.List()
						n := 0
						for _, k := range keys {
							if k >= 0x8000 && k < 0xc000 {
								n++
							}
						}
						if v, _ := store.Load(uint(pk[1].ID)); n < 2 || v == nil {
							e.violate("C17", "identifier-reused-in-flight", "after %d refusals and the acknowledgement of %#04x a publish was accepted while %#04x is in flight, and the store holds %d at-least-once records (keys %v): one identifier serves two transfers", refused, pk[0].ID, pk[1].ID, n, keys)
						}
						e.distinct["refusals-around-space"] = true
					}
				}
				stop()
			}
		}
	}

	// one request stays unanswered while the 13-bit request counter wraps
	e3tests["c11-idwrap"] = func(e *e3, thorough bool) {
		if e.shard != 0 {
			return
		}
		cfg := baseConfig()
		cfg.PauseTimeout = 0
		c, conn, stop, err := onlineClient(cfg, nil)
		if err != nil {
			e.violate("C11", "setup", "%v", err)
			return
		}
		defer stop()
		conn.mu.Lock()
		conn.holdFilter = "hold/me"
		conn.mu.Unlock()
		heldRes := make(chan error, 1)
		go func() { heldRes <- c.Subscribe(nil, "hold/me") }()
		for i := 0; i < 5000; i++ {
			conn.mu.Lock()
			id := conn.heldID
			conn.mu.Unlock()
			if id != 0 {
				break
			}
			time.Sleep(time.Millisecond)
		}
		conn.mu.Lock()
		held := conn.heldID
		conn.mu.Unlock()
		if held == 0 {
			e.violate("C11", "setup", "the held SUBSCRIBE never reached the wire")
			return
		}
		// 8191 answered requests bring the counter back to the held identifier's number
		for i := 0; i < 8191; i++ {
			var err error
			if i%2 == 0 {
				err = c.Unsubscribe(nil, "u")
			} else {
				err = c.Subscribe(nil, "s")
			}
			e.evals.Add(1)
			if err != nil {
				e.violate("C11", "idwrap-request-failed", "request %d: %v", i, err)
				return
			}
		}
		conn.reset()
		second := make(chan error, 1)
		e.at("Subscribe after the counter wrapped")
		go func() { second <- c.Subscribe(nil, "second") }()
		select {
		case err := <-second:
			if err != nil {
				e.violate("C11", "response-to-other-caller", "the Subscribe issued after the counter wrapped returned %v; the broker granted it", err)
			}
		case <-time.After(20 * time.Second):
			e.violate("C11", "call-never-returns#sub", "the Subscribe issued after the counter wrapped does not return although the broker answered it")
			sent := false
			pk, _ := conn.packets()
			for _, p := range pk {
				sent = sent || p.Type == tSUBSCRIBE
			}
			if !sent {
				e.violate("C17", "request-blocked-without-identifier", "with identifier %#04x pending and the counter back at its number, the next Subscribe is neither sent under a fresh identifier nor refused: it blocks", held)
			}
		}
		pk, _ := conn.packets()
		for _, p := range pk {
			if p.Type == tSUBSCRIBE && p.ID == held {
				e.violate("C17", "identifier-reused-in-flight", "SUBSCRIBE %q reuses identifier %#04x, which is still pending", p.Filters, held)
				e.violate("C11", "identifier-reused-in-flight", "SUBSCRIBE %q reuses identifier %#04x, which is still pending", p.Filters, held)
			}
		}
		// now the broker fails the held one: its caller gets its own answer
		e.at("SUBACK for the held Subscribe")
		conn.mu.Lock()
		conn.in = append(conn.in, encSuback(held, []byte{0x80})...)
		conn.cond.Broadcast()
		conn.mu.Unlock()
		select {
		case err := <-heldRes:
			var se mqtt.SubscribeError
			if !errors.As(err, &se) || len(se) != 1 || se[0] != "hold/me" {
				e.violate("C11", "response-to-other-caller", "the held Subscribe returned %v, want SubscribeError[hold/me]", err)
			}
		case <-time.After(20 * time.Second):
			e.violate("C11", "call-never-returns#sub", "the held Subscribe never returns although the broker answered its identifier %#04x", held)
		}
		e.distinct["idwrap"] = true
		e.distinct["idwrap-held"] = true
		e.sample("Subscribe %#04x held open across 8191 answered requests; the next one must get a fresh identifier", held)
	}

	e3tests["c17-slots"] = func(e *e3, thorough bool) {
		if e.shard != 0 {
			return
		}
		cfg := baseConfig()
		cfg.PauseTimeout = 0
		c, conn, stop, err := onlineClient(cfg, nil)
		if err != nil {
			e.violate("C17", "setup", "%v", err)
			return
		}
		defer stop()
		conn.mu.Lock()
		conn.mute = true
		conn.mu.Unlock()
		conn.reset()
		const slots = 512
		var wg sync.WaitGroup
		results := make([]error, slots)
		quits := make([]chan struct{}, slots)
		for i := 0; i < slots; i++ {
			quits[i] = make(chan struct{})
			wg.Add(1)
			go func(i int) {
				defer wg.Done()
				if i%2 == 0 {
					results[i] = c.Subscribe(quits[i], fmt.Sprintf("slot/%d", i))
				} else {
					results[i] = c.Unsubscribe(quits[i], fmt.Sprintf("slot/%d", i))
				}
			}(i)
		}
		// wait until all requests are on the wire
		deadline := time.Now().Add(20 * time.Second)
		for {
			pk, _ := conn.packets()
			if len(pk) >= slots || time.Now().After(deadline) {
				break
			}
			time.Sleep(time.Millisecond)
		}
		pk, _ := conn.packets()
		e.evals.Add(int64(len(pk)))
		if len(pk) != slots {
			e.violate("C17", "slots-not-submitted", "%d of %d requests reached the wire", len(pk), slots)
		}
		seen := map[uint16]bool{}
		for _, p := range pk {
			space := uint16(0x6000)
			if p.Type == tUNSUBSCRIBE {
				space = 0x4000
			}
			if p.ID == 0 || p.ID&0xe000 != space {
				e.violate("C17", "identifier-out-of-space", "%s carries an identifier outside its space", p)
			}
			if seen[p.ID] {
				e.violate("C17", "identifier-reused-in-flight", "identifier %#04x on two pending requests", p.ID)
			}
			seen[p.ID] = true
		}
		// slot 513 is refused without blocking
		done := make(chan error, 1)
		go func() { done <- c.Subscribe(nil, "one/too/many") }()
		select {
		case err := <-done:
			if !errors.Is(err, mqtt.ErrMax) {
				e.violate("C17", "slot-limit", "request %d returned %v, want ErrMax", slots+1, err)
			}
			if mqtt.IsDeny(err) {
				e.violate("C09", "valid-denied#slot-limit", "a valid Subscribe beyond the slot limit was refused as IsDeny: %v", err)
			}
		case <-time.After(20 * time.Second):
			e.violate("C17", "slot-limit-blocks", "request %d blocks instead of returning ErrMax", slots+1)
		}
		e.evals.Add(1)
		// abandon ten, answer them late, then issue ten new ones: fresh identifiers
		for i := 0; i < 10; i++ {
			close(quits[i])
		}
		time.Sleep(20 * time.Millisecond)
		conn.reset()
		var wg2 sync.WaitGroup
		q2 := make(chan struct{})
		for i := 0; i < 10; i++ {
			wg2.Add(1)
			go func(i int) { defer wg2.Done(); c.Subscribe(q2, fmt.Sprintf("late/%d", i)) }(i)
		}
		deadline = time.Now().Add(10 * time.Second)
		for {
			pk2, _ := conn.packets()
			if len(pk2) >= 10 || time.Now().After(deadline) {
				break
			}
			time.Sleep(time.Millisecond)
		}
		pk2, _ := conn.packets()
		for _, p := range pk2 {
			e.evals.Add(1)
			// pending: slots 10.. of the first round
			for j, q := range pk {
				if j >= 10 && q.ID == p.ID {
					e.violate("C17", "identifier-reused-in-flight", "new request reuses %#04x, which is still pending", p.ID)
				}
			}
		}
		close(q2)
		for i := 10; i < slots; i++ {
			close(quits[i])
		}
		wg.Wait()
		wg2.Wait()
		for i, err := range results {
			if !errors.Is(err, mqtt.ErrAbandoned) {
				e.violate("C17", "abandon-result", "request %d returned %v after quit, want ErrAbandoned", i, err)
				break
			}
		}
		e.distinct["slots-512"] = true
		e.distinct["slot-513"] = true
		e.sample("512 pending subscribe/unsubscribe requests, identifiers distinct; the 513th gets ErrMax")
	}
}

func init() {
	// C06 at the boundaries of the remaining-length encoding: the largest
	// packet of each length class and the smallest of the next, inbound
	e3tests["c06-lengths"] = func(e *e3, thorough bool) {
		if e.shard != 0 {
			return
		}
		lengths := []int{0 + 5, 127, 128, 16383, 16384, 131071, 131072, 131073, 2097151, 2097152, 2097153}
		if thorough {
			lengths = append(lengths, 4<<20+1, 32<<20, 268435455)
		}
		for _, rl := range lengths {
			for qos := 0; qos <= 1; qos++ {
				e.at("inbound PUBLISH with remaining length %d, QoS %d", rl, qos)
				n := rl - 2 - 3 // topic "big"
				if qos > 0 {
					n -= 2
				}
				if n < 0 {
					continue
				}
				body := make([]byte, n)
				for i := range body {
					body[i] = byte(i*31 + i>>8)
				}
				conn := newLoopConn()
				conn.discard = true
				cfg := baseConfig()
				cfg.PauseTimeout = 0
				cfg.Dialer = func(ctx context.Context) (net.Conn, error) { return conn, nil }
				c, err := mqtt.VolatileSession("e3", &cfg)
				if err != nil {
					e.violate("C06", "setup", "%v", err)
					return
				}
				conn.mu.Lock()
				// the CONNACK is appended by the answering machine; the stream follows it
				conn.after = append(encPublish(qos, false, false, 9, "big", body), encPublish(0, false, false, 0, "next", []byte("small"))...)
				conn.mu.Unlock()
				e.evals.Add(1)
				e.distinct[fmt.Sprintf("rl%d/q%d", rl, qos)] = true
				msg, topic, err := c.ReadSlices()
				var big *mqtt.BigMessage
				switch {
				case errors.As(err, &big):
					if big.Topic != "big" || big.Size != n {
						e.violate("C06", "bigmessage-mismatch", "remaining length %d: BigMessage{Topic:%q Size:%d}, sent %q with %d bytes", rl, big.Topic, big.Size, "big", n)
					} else if got, rerr := big.ReadAll(); rerr != nil || !bytes.Equal(got, body) {
						e.violate("C06", "bigmessage-content", "remaining length %d: ReadAll gave %d bytes, error %v; the content differs from what was sent", rl, len(got), rerr)
					}
				case err != nil:
					e.violate("C06", "well-formed-publish-rejected", "inbound PUBLISH with remaining length %d (QoS %d) made ReadSlices fail: %v", rl, qos, err)
					c.Close()
					continue
				default:
					if string(topic) != "big" || !bytes.Equal(msg, body) {
						e.violate("C06", "delivery-mismatch", "remaining length %d: got (%q, %d bytes), sent (%q, %d bytes)", rl, topic, len(msg), "big", n)
					}
				}
				msg, topic, err = c.ReadSlices()
				if err != nil || string(topic) != "next" || string(msg) != "small" {
					e.violate("C06", "stream-misaligned-after-big", "after the PUBLISH with remaining length %d the next message came back as (%q, %q, %v)", rl, topic, msg, err)
				}
				c.Close()
			}
		}
		e.sample("inbound PUBLISH packets at the boundaries of the remaining-length encoding: %v", lengths)
	}
}
