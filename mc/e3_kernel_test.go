package mc

// Conformance of the in-memory file-system shim to the real kernel: the same
// histories run in a helper process on a real temporary directory under
// strace; the file-related system calls must match the shim's primitive
// operations one to one, and killing the helper at the entry of the n-th of
// them must leave the directory in the state the shim predicts for a stop at
// the entry of primitive n.

import (
	"bufio"
	"bytes"
	"fmt"
	"os"
	"os/exec"
	"path/filepath"
	"regexp"
	"sort"
	"strconv"
	"strings"
	"testing"

	"github.com/pascaldekloe/mqtt"
)

func kernelHistories() [][]fsOp {
	v1, v2 := fsVal("first", 12), fsVal("second-longer", 40)
	return [][]fsOp{
		{{"save", 0x8000, v1, 1}},
		{{"save", 0x8000, v1, 2}, {"save", 0x8000, v2, 3}},
		{{"save", 0x1ffff, v2, 1}, {"delete", 0x1ffff, nil, 0}, {"save", 0x1ffff, v1, 2}},
		{{"save", 0, v1, 1}, {"save", 0x8001, v2, 2}, {"delete", 0, nil, 0}, {"delete", 0, nil, 0}},
	}
}

// TestFSKernelHelper runs one history on the real file system.
func TestFSKernelHelper(t *testing.T) {
	dir := os.Getenv("VERIF_FS_DIR")
	if dir == "" {
		t.Skip()
	}
	i, _ := strconv.Atoi(os.Getenv("VERIF_FS_HIST"))
	st := mqtt.FileSystem(dir)
	for _, op := range kernelHistories()[i] {
		var err error
		if op.kind == "save" {
			err = st.Save(op.key, splitBufs(op.val, op.bufs))
		} else {
			err = st.Delete(op.key)
		}
		if err != nil {
			fmt.Println("helper: op failed:", err)
		}
	}
}

var straceLine = regexp.MustCompile(`^(\d+\s+)?(\w+)\((.*)`)

type sysc struct {
	ord  int // ordinal among all traced calls
	kind string
	path string
	line string
}

const straceSet = "openat,write,fsync,close,renameat,renameat2,rename,unlinkat,unlink"

func parseStrace(path, dir string) (all int, rel []sysc, killedLine string) {
	f, err := os.Open(path)
	if err != nil {
		return 0, nil, ""
	}
	defer f.Close()
	sc := bufio.NewScanner(f)
	sc.Buffer(make([]byte, 1<<20), 1<<20)
	for sc.Scan() {
		l := sc.Text()
		m := straceLine.FindStringSubmatch(l)
		if m == nil {
			continue
		}
		if strings.Contains(l, "<... ") { // resumed lines do not count as entries
			continue
		}
		all++
		name, args := m[2], m[3]
		if !strings.Contains(args, dir) {
			continue
		}
		kind := ""
		switch name {
		case "openat":
			if strings.Contains(args, "O_CREAT") {
				kind = "create"
			} else {
				kind = "open"
			}
		case "write":
			kind = "write"
		case "fsync":
			kind = "sync"
		case "close":
			kind = "close"
		case "renameat", "renameat2", "rename":
			kind = "rename"
		case "unlinkat", "unlink":
			if strings.Contains(args, "AT_REMOVEDIR") {
				continue // os.Remove falls back to rmdir when unlink failed: no effect on files
			}
			kind = "remove"
		}
		if kind == "" {
			continue
		}
		rel = append(rel, sysc{ord: all, kind: kind, line: l})
		if strings.Contains(l, "= ?") || strings.HasSuffix(strings.TrimSpace(l), "<unfinished ...>") {
			killedLine = l
		}
	}
	return
}

func dirState(dir string) map[string]string {
	out := map[string]string{}
	ents, _ := os.ReadDir(dir)
	for _, e := range ents {
		b, _ := os.ReadFile(filepath.Join(dir, e.Name()))
		out[e.Name()] = string(b)
	}
	return out
}

func stateStr(m map[string]string) string {
	var ks []string
	for k := range m {
		ks = append(ks, k)
	}
	sort.Strings(ks)
	var b strings.Builder
	for _, k := range ks {
		fmt.Fprintf(&b, "%s=%q ", k, m[k])
	}
	return b.String()
}

func init() {
	e3tests["c19-kernel"] = func(e *e3, thorough bool) {
		strace, err := exec.LookPath("strace")
		self, err2 := os.Executable()
		if err != nil || err2 != nil {
			e.sample("strace not available: kernel conformance skipped")
			e.distinct["skipped"] = true
			e.distinct["skipped2"] = true
			e.evals.Store(1)
			return
		}
		hs := kernelHistories()
		for hi, h := range hs {
			if hi%e.nshards != e.shard {
				continue
			}
			// the shim's view
			ref := newVFS()
			runFS(ref, h)
			kinds := ref.opKinds
			base, _ := os.MkdirTemp("", "verif-c19k-")
			defer os.RemoveAll(base)
			run := func(tag string, inject string) (string, string) {
				dir := filepath.Join(base, tag) + "/"
				os.MkdirAll(dir, 0o755)
				out := filepath.Join(base, tag+".strace")
				args := []string{"-f", "-y", "-s", "0", "-e", "trace=" + straceSet, "-o", out}
				if inject != "" {
					args = append(args, "-e", "inject="+straceSet+":signal=KILL:when="+inject)
				}
				args = append(args, self, "-test.run", "^TestFSKernelHelper$")
				cmd := exec.Command(strace, args...)
				cmd.Env = append(os.Environ(), "VERIF_FS_DIR="+dir, "VERIF_FS_HIST="+strconv.Itoa(hi), "GOMAXPROCS=1", "VERIF_SCN=")
				var buf bytes.Buffer
				cmd.Stdout, cmd.Stderr = &buf, &buf
				cmd.Run()
				return dir, out
			}
			dir, out := run("ref", "")
			_, rel, _ := parseStrace(out, dir)
			e.evals.Add(1)
			if len(rel) == 0 {
				e.sample("strace produced no file-related calls (ptrace not permitted?): kernel conformance skipped")
				e.distinct["skipped"] = true
				e.distinct["skipped2"] = true
				return
			}
			var got []string
			for _, s := range rel {
				got = append(got, s.kind)
			}
			e.distinct[fmt.Sprintf("h%d", hi)] = true
			if strings.Join(got, " ") != strings.Join(kinds, " ") {
				e.res.ToolErrs = append(e.res.ToolErrs, fmt.Sprintf("file-system shim does not match the kernel for %v: kernel %v, shim %v", h, got, kinds))
				continue
			}
			e.sample("%v: kernel and shim agree on %d primitives: %s", h, len(kinds), strings.Join(kinds, " "))
			// final state
			final := dirState(dir)
			want := map[string]string{}
			for name, ino := range ref.names {
				want[strings.TrimPrefix(name, "/d/")] = string(ino.data)
			}
			if stateStr(final) != stateStr(want) {
				e.res.ToolErrs = append(e.res.ToolErrs, fmt.Sprintf("final directory differs for %v: kernel %s, shim %s", h, stateStr(final), stateStr(want)))
				continue
			}
			if !thorough && hi > 1 {
				continue
			}
			// kill at the entry of every file-related system call
			confirmed := 0
			for n, s := range rel {
				tag := fmt.Sprintf("k%d", n)
				kdir, kout := run(tag, strconv.Itoa(s.ord))
				_, krel, _ := parseStrace(kout, kdir)
				e.evals.Add(1)
				// the kill must have hit the intended call: exactly n+1 related calls were entered
				if len(krel) != n+1 || krel[n].kind != s.kind {
					continue // start-up noise shifted the ordinal: unconfirmed, not judged
				}
				// strace injects the signal at the entry stop; the kernel completes
				// the (non-blocking) call before the signal is acted upon, so the
				// observable stop is at the exit of call n+1
				v := newVFS()
				v.stopAt, v.stopExit = n+1, true
				runFS(v, h)
				wantK := map[string]string{}
				for name, ino := range v.names {
					wantK[strings.TrimPrefix(name, "/d/")] = string(ino.data)
				}
				gotK := dirState(kdir)
				e.distinct[fmt.Sprintf("h%d/k%d", hi, n)] = true
				if stateStr(gotK) != stateStr(wantK) {
					e.res.ToolErrs = append(e.res.ToolErrs, fmt.Sprintf("%v killed with system call %d (%s) as its last: kernel left %s, shim predicts %s for a stop at the exit of primitive %[2]d", h, n+1, s.kind, stateStr(gotK), stateStr(wantK)))
				} else {
					confirmed++
				}
			}
			e.sample("%v: %d of %d kill points confirmed against the shim", h, confirmed, len(rel))
		}
	}
}
