package mc

import (
	"bytes"
	"context"
	"errors"
	"fmt"
	"io"
	"net"
	"strings"
	"sync/atomic"
	"testing"
	"testing/synctest"
	"time"

	"github.com/pascaldekloe/mqtt"
	"github.com/pascaldekloe/mqtt/mqtttest"
)

func init() {
	// C15: record layout round trip and single-byte damage
	e3tests["c15-codec"] = func(e *e3, thorough bool) {
		seqs := []uint64{0, 1, 1<<32 - 1, 1 << 32, 1<<64 - 1}
		maxLen := 120
		if thorough {
			maxLen = 300
		}
		var packets [][]byte
		for n := 0; n <= maxLen; n++ {
			p := make([]byte, n)
			for i := range p {
				p[i] = byte(i*31 + n)
			}
			if n > 0 {
				p[0] = 0x32
			}
			packets = append(packets, p)
		}
		// records of a real session
		store := newPlainStore()
		cfg := baseConfig()
		cfg.PauseTimeout = 0
		c, conn, stop, err := onlineClient(cfg, store)
		if err == nil {
			conn.mu.Lock()
			conn.mute = true
			conn.mu.Unlock()
			c.PublishAtLeastOnce([]byte("payload-1"), "topic/1")
			c.PublishAtLeastOnceRetained(nil, "topic/2")
			c.PublishExactlyOnce(bytes.Repeat([]byte("z"), 200), "topic/3")
			for k, v := range store.m {
				pkt, seq, ok := refDecodeValue(v)
				if !ok {
					e.violate("C15", "stored-layout", "record %#x stored by the client does not follow the documented layout", k)
					continue
				}
				e.sample("record %#x: packet %x… seq %d", k, pkt[:min(8, len(pkt))], seq)
				packets = append(packets, pkt)
				// through the client: Load returns the packet
				_ = seq
			}
			stop()
		}
		if thorough {
			packets = append(packets, make([]byte, 16<<10), make([]byte, 1<<20))
		}
		for pi, pkt := range packets {
			if !e.mine() {
				continue
			}
			for _, seq := range seqs {
				e.evals.Add(1)
				// split into buffers at every third position for short packets
				bufs := net.Buffers{pkt}
				if len(pkt) > 3 {
					bufs = net.Buffers{pkt[:len(pkt)/3], pkt[len(pkt)/3:]}
				}
				got := flat(mqtt.VerifEncodeValue(bufs, seq))
				want := refEncodeValue(pkt, seq)
				e.distinct[fmt.Sprintf("%d/%d", len(pkt), seq)] = true
				if !bytes.Equal(got, want) {
					e.violate("C15", "encode-layout", "packet of %d bytes, sequence %d: stored value differs from packet ‖ LE64(seq) ‖ BE32(FNV-1a)", len(pkt), seq)
					continue
				}
				p2, s2, derr := mqtt.VerifDecodeValue(clone(got))
				if derr != nil || !bytes.Equal(p2, pkt) || s2 != seq {
					e.violate("C15", "round-trip", "packet of %d bytes, sequence %d does not round-trip: %v", len(pkt), seq, derr)
					continue
				}
				if len(pkt) > 400 || seq != seqs[pi%len(seqs)] {
					continue
				}
				// every truncation
				for n := 0; n < len(got); n++ {
					e.evals.Add(1)
					if _, _, derr := mqtt.VerifDecodeValue(clone(got[:n])); derr == nil {
						e.violate("C15", "truncation-accepted", "value of %d bytes truncated to %d was accepted", len(got), n)
					}
				}
				// every single-byte alteration
				buf := clone(got)
				for i := range buf {
					orig := buf[i]
					for d := 1; d < 256; d++ {
						buf[i] = orig ^ byte(d)
						e.evals.Add(1)
						if _, _, derr := mqtt.VerifDecodeValue(buf); derr == nil {
							e.violate("C15", "damage-accepted", "value of %d bytes with byte %d changed from %#02x to %#02x was accepted", len(got), i, orig, buf[i])
						}
					}
					buf[i] = orig
				}
			}
		}
		// through AdoptSession and connect: a damaged record is warned about, not adopted, not transmitted
		if e.shard == 0 {
			for _, kind := range []string{"publish", "clientid", "pubrel", "marker"} {
				st := newPlainStore()
				st.m[0] = refEncodeValue([]byte("cid"), 1)
				rec := refEncodeValue(encPublish(1, false, false, 0x8000, "t", []byte("DAMAGED-PAYLOAD")), 2)
				st.m[0x8000] = rec
				key := uint(0x8000)
				switch kind {
				case "clientid":
					key = 0
				case "pubrel": // an exactly-once transfer awaiting PUBCOMP
					key = 0xc000
					st.m[key] = refEncodeValue(encAck(tPUBREL, 0xc000), 3)
				case "marker": // an inbound exactly-once message awaiting PUBREL
					key = 0x10007
					st.m[key] = refEncodeValue(encAck(tPUBREC, 7), 3)
				}
				// every single-byte flip, then every truncation (as a non-nil slice, also the empty one)
				full := len(st.m[key])
				for pos := 0; pos < 2*full; pos++ {
					s2 := newPlainStore()
					for k, v := range st.m {
						s2.m[k] = clone(v)
					}
					if pos < full {
						s2.m[key][pos] ^= 0x40
					} else {
						s2.m[key] = append([]byte{}, s2.m[key][:pos-full]...)
					}
					dialed := 0
					conn := newLoopConn()
					cfg := baseConfig()
					cfg.PauseTimeout = 0
					cfg.Dialer = func(ctx context.Context) (net.Conn, error) { dialed++; return conn, nil }
					cl, warn, fatal := mqtt.AdoptSession(s2, &cfg)
					e.evals.Add(1)
					if fatal != nil {
						e.violate("C15", "adopt-fatal-on-damage", "AdoptSession failed on a damaged %s record: %v", kind, fatal)
						continue
					}
					if kind == "pubrel" || kind == "marker" {
						if len(warn) == 0 {
							e.violate("C15", "damage-not-warned#"+kind, "damaged %s record (position %d) adopted without warning", kind, pos)
						}
						if _, n := mqtt.VerifQueueLens(cl); n != 0 && kind == "pubrel" {
							e.violate("C15", "damaged-record-adopted#pubrel", "damaged PUBREL record (position %d) became a pending transfer", pos)
						}
						if v, _ := s2.Load(key); v != nil && kind == "marker" {
							e.violate("C15", "damaged-record-adopted#marker", "damaged marker record (position %d) is still in store after AdoptSession: the identifier stays blocked", pos)
						}
					}
					if kind == "publish" {
						if len(warn) == 0 {
							e.violate("C15", "damage-not-warned", "damaged PUBLISH record (byte %d) adopted without warning", pos)
						}
						if n, _ := mqtt.VerifQueueLens(cl); n != 0 {
							e.violate("C15", "damaged-record-adopted", "damaged PUBLISH record (byte %d) became a pending transfer", pos)
						}
					}
					done := make(chan error, 1)
					go func() { _, _, err := cl.ReadSlices(); done <- err }()
					wait := 50 * time.Millisecond // long enough for a resend to reach the wire
					if kind == "clientid" {
						wait = 20 * time.Second // an immediate error is due: no verdict from a busy machine
					}
					select {
					case err := <-done:
						if kind == "clientid" && (err == nil || dialed != 0) {
							e.violate("C15", "damaged-clientid-used", "damaged client identifier record: ReadSlices returned %v after %d dials", err, dialed)
						}
					case <-time.After(wait):
						if kind == "clientid" {
							e.violate("C15", "damaged-clientid-used", "damaged client identifier record: connect went ahead")
						}
					}
					conn.mu.Lock()
					if bytes.Contains(conn.out, []byte("DAMAGED")) && (kind == "publish" || kind == "clientid") { // otherwise the PUBLISH record is intact and due
						e.violate("C15", "damaged-record-transmitted", "bytes of a damaged record reached the wire")
					}
					conn.mu.Unlock()
					cl.Close()
				}
			}
		}
	}

	// a damaged record is reported even when the adoption is refused for another
	// reason: AdoptSession has removed it by then, and nobody else will tell
	// the client-identifier record is damaged at rest while the client lives
	// (every byte position x a few values, every truncation); the next
	// connect either reports it or, if it does not read the record again,
	// uses the identifier that was stored -- never the damaged bytes
	e3tests["c15-live"] = func(e *e3, thorough bool) {
		const id = "e3-client-identifier"
		flips := []byte{0x01, 0x20, 0x80}
		if thorough {
			// every single-bit flip and the complement (each case costs a
			// quarter of a second of waiting for the reconnect)
			flips = []byte{0x01, 0x02, 0x04, 0x08, 0x10, 0x20, 0x40, 0x80, 0xff}
		}
		for _, alias := range []bool{true, false} {
			probe := newPlainStore()
			cfg0 := baseConfig()
			cfg0.Dialer = func(ctx context.Context) (net.Conn, error) { return nil, errors.New("no") }
			if _, err := mqtt.InitSession(id, probe, &cfg0); err != nil {
				e.violate("C15", "setup", "%v", err)
				return
			}
			size := len(probe.m[0])
			type dmg struct {
				pos  int
				flip byte
				cut  int
			}
			var ds []dmg
			for pos := 0; pos < size; pos++ {
				for _, f := range flips {
					ds = append(ds, dmg{pos: pos, flip: f, cut: -1})
				}
			}
			for cut := 0; cut < size; cut++ {
				ds = append(ds, dmg{cut: cut})
			}
			for _, d := range ds {
				if !e.mine() {
					continue
				}
				e.evals.Add(1)
				store := newPlainStore()
				store.alias = alias
				cfg := baseConfig()
				cfg.PauseTimeout = 0
				conns := []*loopConn{newLoopConn(), newLoopConn()}
				dials := 0
				cfg.Dialer = func(ctx context.Context) (net.Conn, error) {
					dials++
					if dials > len(conns) {
						return nil, errors.New("e3: no more connections")
					}
					return conns[dials-1], nil
				}
				c, err := mqtt.InitSession(id, store, &cfg)
				if err != nil {
					e.violate("C15", "setup", "%v", err)
					return
				}
				results := make(chan error, 8)
				go func() {
					for {
						_, _, err := c.ReadSlices()
						results <- err
						if err != nil && (errors.Is(err, mqtt.ErrClosed) || len(results) > 4) {
							return
						}
						if err != nil && dials >= 2 {
							return
						}
					}
				}()
				select {
				case <-c.Online():
				case <-time.After(e3Stall / 4):
					e.violate("C15", "setup", "no Online on the first connection")
					continue
				}
				// damage at rest, in place
				store.mu.Lock()
				if d.cut >= 0 {
					store.m[0] = store.m[0][:d.cut]
				} else {
					store.m[0][d.pos] ^= d.flip
				}
				store.mu.Unlock()
				conns[0].Close() // connection lost
				var rerr error
				deadline := time.After(e3Stall / 4)
			wait:
				for {
					select {
					case rerr = <-results:
						if rerr != nil && !errors.Is(rerr, net.ErrClosed) && !strings.Contains(rerr.Error(), "closed") {
							break wait
						}
						if dials >= 2 {
							// a second connection was opened: look at it once it is answered
							select {
							case <-c.Online():
							case <-time.After(50 * time.Millisecond):
							}
							break wait
						}
					case <-time.After(5 * time.Millisecond):
						if dials >= 2 {
							select {
							case <-c.Online():
							case <-time.After(50 * time.Millisecond):
							}
							break wait
						}
					case <-deadline:
						break wait
					}
				}
				reported := rerr != nil && strings.Contains(rerr.Error(), "corrupt")
				e.distinct[fmt.Sprintf("live/%t/%t/%t", alias, d.cut >= 0, reported)] = true
				pk, _ := conns[1].packets()
				for _, p := range pk {
					if p.Type == tCONNECT && p.Connect != nil && p.Connect.ClientID != id {
						e.violate("C15", "damaged-clientid-transmitted#live", "record 0 damaged at rest (pos %d xor %#x, cut %d; store aliasing %t): the next CONNECT carries client identifier %q, stored was %q", d.pos, d.flip, d.cut, alias, p.Connect.ClientID, id)
					}
				}
				go c.Close()
				for k := 0; k < 6; k++ {
					select {
					case err := <-results:
						if errors.Is(err, mqtt.ErrClosed) {
							k = 6
						}
					case <-time.After(200 * time.Millisecond):
						k = 6
					}
				}
			}
		}
	}
	e3tests["c15-denied"] = func(e *e3, thorough bool) {
		if e.shard != 0 {
			return
		}
		base := newPlainStore()
		base.m[0] = refEncodeValue([]byte("cid"), 1)
		base.m[0x8000] = refEncodeValue(encPublish(1, false, false, 0x8000, "t", []byte("first")), 2)
		base.m[0x8001] = refEncodeValue(encPublish(1, false, false, 0x8001, "t", []byte("second")), 3)
		base.m[0x8002] = refEncodeValue(encPublish(1, false, false, 0x8002, "t", []byte("third")), 4)
		full := len(base.m[0x8002])
		for pos := 0; pos < 2*full; pos++ {
			for _, limit := range []int{0, 1, -1, 3} {
				e.at("damage position %d, AtLeastOnceMax %d", pos, limit)
				st := newPlainStore()
				for k, v := range base.m {
					st.m[k] = clone(v)
				}
				if pos < full {
					st.m[0x8002][pos] ^= 0x04
				} else {
					st.m[0x8002] = append([]byte{}, st.m[0x8002][:pos-full]...)
				}
				cfg := baseConfig()
				cfg.AtLeastOnceMax = limit
				cfg.Dialer = func(ctx context.Context) (net.Conn, error) { return nil, errors.New("no network") }
				cl, warn, fatal := mqtt.AdoptSession(st, &cfg)
				e.evals.Add(1)
				e.distinct[fmt.Sprintf("denied/%d/%t", limit, fatal != nil)] = true
				wantFatal := limit == 0 || limit == 1 // two intact records are pending
				if (fatal != nil) != wantFatal {
					e.violate("C15", "adopt-limit", "AtLeastOnceMax %d with two intact pending records and one damaged: fatal error %v", limit, fatal)
				}
				gone, _ := st.Load(0x8002)
				named := false
				for _, w := range warn {
					named = named || strings.Contains(w.Error(), "0x8002")
				}
				if gone == nil && !named {
					e.violate("C15", "damage-not-reported#denied", "record 0x8002 (damage position %d) was removed by AdoptSession (AtLeastOnceMax %d, fatal error %v) but no warning names it: %v", pos, limit, fatal, warn)
				}
				if cl != nil {
					cl.Close()
				}
			}
		}
		e.sample("a damaged third record next to two intact ones, adopted with limits 0, 1, -1, 3")
	}

	// C14: error classifiers over wrapped and joined error trees
	e3tests["c14-classifiers"] = func(e *e3, thorough bool) {
		_, denyTopic := mqtt.VolatileSession("\xff", &mqtt.Config{Dialer: func(context.Context) (net.Conn, error) { return nil, nil }})
		cfg := baseConfig()
		cfg.PauseTimeout = 0
		c, _, stop, _ := onlineClient(cfg, nil)
		denyZero := c.Publish(nil, nil, "")
		denyNull := c.Publish(nil, nil, "a\x00")
		denyNone := c.Subscribe(nil)
		stop()
		leaves := []error{denyTopic, denyZero, denyNull, denyNone, mqtt.ErrClosed, mqtt.ErrCanceled, mqtt.ErrAbandoned, mqtt.ErrMax, mqtt.ErrDown, mqtt.ErrSubmit, mqtt.ErrBreak, io.EOF}
		isDenyLeaf := func(x error) bool { return x == denyTopic || x == denyZero || x == denyNull || x == denyNone }
		isEndLeaf := func(x error) bool { return x == mqtt.ErrClosed || x == mqtt.ErrCanceled || x == mqtt.ErrAbandoned }
		type tree struct {
			err    error
			leaves []error
		}
		level := make([]tree, 0, len(leaves))
		for _, l := range leaves {
			level = append(level, tree{l, []error{l}})
		}
		depth := 2
		if thorough {
			depth = 3
		}
		all := append([]tree{}, level...)
		cur := level
		for d := 0; d < depth; d++ {
			var next []tree
			for _, t := range cur {
				next = append(next, tree{fmt.Errorf("wrap: %w", t.err), t.leaves})
				next = append(next, tree{customIs{t.err}, t.leaves})
			}
			// joins of width 2 and 3 with trees from all levels so far (bounded)
			base := all
			if len(base) > 40 {
				base = base[:40]
			}
			for i, a := range cur {
				if i >= 30 {
					break
				}
				for _, b := range base {
					next = append(next, tree{errors.Join(a.err, b.err), append(append([]error{}, a.leaves...), b.leaves...)})
					next = append(next, tree{multi{[]error{b.err, a.err, io.EOF}}, append(append([]error{}, a.leaves...), append(b.leaves, io.EOF)...)})
				}
			}
			all = append(all, next...)
			cur = next
			if len(cur) > 3000 {
				cur = cur[:3000]
			}
		}
		for _, t := range all {
			if !e.mine() {
				continue
			}
			e.evals.Add(1)
			wantDeny, wantEnd := false, false
			for _, l := range t.leaves {
				wantDeny = wantDeny || isDenyLeaf(l)
				wantEnd = wantEnd || isEndLeaf(l)
			}
			before := make([]bool, len(leaves))
			for i, l := range leaves {
				before[i] = errors.Is(t.err, l)
			}
			gd, ge := mqtt.IsDeny(t.err), mqtt.IsEnd(t.err)
			e.distinct[fmt.Sprintf("%d/%t/%t", len(t.leaves), wantDeny, wantEnd)] = true
			if gd != wantDeny {
				e.violate("C14", "isdeny-wrong", "IsDeny(%v) = %t with leaves %v", t.err, gd, t.leaves)
			}
			if ge != wantEnd {
				e.violate("C14", "isend-wrong", "IsEnd(%v) = %t with leaves %v", t.err, ge, t.leaves)
			}
			for i, l := range leaves {
				if errors.Is(t.err, l) != before[i] {
					e.violate("C14", "classifier-mutates-error", "after IsDeny/IsEnd, errors.Is(err, %v) changed from %t (err has %d leaves)", l, before[i], len(t.leaves))
					break
				}
			}
			// Backoff is nil exactly for the permanent classes
			if c != nil {
				ch := c.Backoff(t.err)
				perm := wantDeny || wantEnd
				if perm != (ch == nil) {
					e.violate("C14", "backoff-class", "Backoff(%v) nil=%t, permanent=%t", t.err, ch == nil, perm)
				}
			}
		}
		e.sample("%d error trees of depth <= %d over %d leaves", len(all), depth, len(leaves))
		if c != nil {
			if c.Backoff(nil) != nil || c.Backoff(mqtt.SubscribeError{"x"}) != nil {
				e.violate("C14", "backoff-class", "Backoff(nil) or Backoff(SubscribeError) is not nil")
			}
		}
	}

	// C20: the mqtttest doubles
	e3tests["c20-doubles"] = c20
}

type customIs struct{ inner error }

func (c customIs) Error() string        { return "custom(" + c.inner.Error() + ")" }
func (c customIs) Is(target error) bool { return false }
func (c customIs) Unwrap() error        { return c.inner }

type multi struct{ errs []error }

func (m multi) Error() string   { return fmt.Sprint(m.errs) }
func (m multi) Unwrap() []error { return m.errs }

// recTB records what a mock reports.
type recTB struct {
	testing.TB
	errors   []string
	fatal    bool
	cleanups []func()
}

type fatalSentinel struct{}

func (r *recTB) Helper()                   {}
func (r *recTB) Errorf(f string, a ...any) { r.errors = append(r.errors, fmt.Sprintf(f, a...)) }
func (r *recTB) Error(a ...any)            { r.errors = append(r.errors, fmt.Sprint(a...)) }
func (r *recTB) Fatalf(f string, a ...any) {
	r.errors = append(r.errors, fmt.Sprintf(f, a...))
	r.fatal = true
	panic(fatalSentinel{})
}
func (r *recTB) Cleanup(f func()) { r.cleanups = append(r.cleanups, f) }
func (r *recTB) finish() {
	for i := len(r.cleanups) - 1; i >= 0; i-- {
		r.cleanups[i]()
	}
}

func c20(e *e3, thorough bool) {
	msgs := [][]byte{nil, []byte("a"), []byte("b")}
	topics := []string{"x", "y"}
	type tr = mqtttest.Transfer
	var alphabet []tr
	for _, m := range msgs {
		for _, t := range topics {
			alphabet = append(alphabet, tr{Message: m, Topic: t})
		}
	}
	var seqs func(n int) [][]tr
	seqs = func(n int) [][]tr {
		if n == 0 {
			return [][]tr{nil}
		}
		var out [][]tr
		for _, s := range seqs(n - 1) {
			out = append(out, s)
			if len(s) == n-1 {
				for _, a := range alphabet {
					out = append(out, append(append([]tr{}, s...), a))
				}
			}
		}
		return out
	}
	calls := seqs(2)
	// expectations also script the result: a scripted error does not excuse
	// a deviation, and it is what the call returns
	errScripted := errors.New("scripted failure")
	callAlphabet := alphabet
	alphabet = nil
	for _, a := range callAlphabet {
		alphabet = append(alphabet, a, tr{Message: a.Message, Topic: a.Topic, Err: errScripted})
	}
	wants := seqs(2)
	alphabet = callAlphabet
	if thorough {
		calls = seqs(3)
	}
	closedQuit := make(chan struct{})
	close(closedQuit)
	// publish mock
	for _, want := range wants {
		for _, call := range calls {
			for qi, quit := range []<-chan struct{}{nil, make(chan struct{}), closedQuit} {
				if !e.mine() {
					continue
				}
				e.evals.Add(1)
				rec := &recTB{}
				panicked := false
				func() {
					defer func() {
						if r := recover(); r != nil {
							if _, ok := r.(fatalSentinel); !ok {
								panicked = true
							}
						}
					}()
					pub := mqtttest.NewPublishMock(rec, want...)
					callIdx := 0
					for _, c := range call {
						err := pub(quit, c.Message, c.Topic)
						if qi == 2 && !errors.Is(err, mqtt.ErrCanceled) {
							e.violate("C20", "publish-mock-quit", "publish mock with closed quit returned %v", err)
						}
						if ci := callIdx; qi != 2 && ci < len(want) && err != want[ci].Err {
							e.violate("C20", "publish-mock-result", "publish mock: call %d returned %v, the expectation scripts %v", ci, err, want[ci].Err)
						}
						callIdx++
					}
					rec.finish()
				}()
				deviates := false
				effective := call
				if qi == 2 {
					effective = nil // cancelled calls consume no expectation
				}
				if len(effective) != len(want) {
					deviates = true
				}
				for i := range effective {
					if i < len(want) && (!bytes.Equal(effective[i].Message, want[i].Message) || effective[i].Topic != want[i].Topic) {
						deviates = true
					}
				}
				flagged := len(rec.errors) > 0 || panicked
				e.distinct[fmt.Sprintf("pub/%d/%d/%d/%t", len(want), len(call), qi, deviates)] = true
				if deviates && !flagged {
					e.violate("C20", "publish-mock-silent", "publish mock: want %v, calls %v (quit variant %d): deviation not reported", trs(want), trs(call), qi)
				}
				if !deviates && flagged {
					e.violate("C20", "publish-mock-false-alarm", "publish mock: want %v, calls %v (quit variant %d): reported %v", trs(want), trs(call), qi, rec.errors)
				}
			}
		}
	}
	// subscribe and unsubscribe mocks: filter sets
	filterSets := [][]string{{"f"}, {"g"}, {"f", "g"}, {"g", "f"}, {"h"}}
	type fl = mqtttest.Filter
	var fseqs func(n int) [][][]string
	fseqs = func(n int) [][][]string {
		if n == 0 {
			return [][][]string{nil}
		}
		var out [][][]string
		for _, s := range fseqs(n - 1) {
			out = append(out, s)
			if len(s) == n-1 {
				for _, a := range filterSets {
					out = append(out, append(append([][]string{}, s...), a))
				}
			}
		}
		return out
	}
	sameSet := func(a, b []string) bool {
		if len(a) != len(b) {
			return false
		}
		m := map[string]bool{}
		for _, x := range a {
			m[x] = true
		}
		for _, x := range b {
			if !m[x] {
				return false
			}
		}
		return true
	}
	for _, unsub := range []bool{false, true} {
		for _, want := range fseqs(2) {
			for _, call := range fseqs(2) {
				for qi, quit := range []<-chan struct{}{nil, closedQuit} {
					if !e.mine() {
						continue
					}
					e.evals.Add(1)
					rec := &recTB{}
					var w []fl
					for _, f := range want {
						w = append(w, fl{Topics: f})
					}
					panicked := false
					func() {
						defer func() {
							if r := recover(); r != nil {
								if _, ok := r.(fatalSentinel); !ok {
									panicked = true
								}
							}
						}()
						var f func(quit <-chan struct{}, topicFilters ...string) error
						if unsub {
							f = mqtttest.NewUnsubscribeMock(rec, w...)
						} else {
							f = mqtttest.NewSubscribeMock(rec, w...)
						}
						for _, c := range call {
							err := f(quit, c...)
							if qi == 1 && !errors.Is(err, mqtt.ErrCanceled) {
								e.violate("C20", "subscribe-mock-quit", "subscribe mock with closed quit returned %v", err)
							}
						}
						rec.finish()
					}()
					effective := call
					if qi == 1 {
						effective = nil
					}
					deviates := len(effective) != len(want)
					for i := range effective {
						if i < len(want) && !sameSet(effective[i], want[i]) {
							deviates = true
						}
					}
					flagged := len(rec.errors) > 0 || panicked
					e.distinct[fmt.Sprintf("sub/%t/%d/%d/%d/%t", unsub, len(want), len(call), qi, deviates)] = true
					if deviates && !flagged {
						e.violate("C20", "subscribe-mock-silent", "subscribe mock (unsub=%t): want %v, calls %v: deviation not reported", unsub, want, call)
					}
					if !deviates && flagged {
						e.violate("C20", "subscribe-mock-false-alarm", "subscribe mock (unsub=%t): want %v, calls %v: reported %v", unsub, want, call, rec.errors)
					}
				}
			}
		}
	}
	// ReadSlices mock: returns the transfers in order, flags surplus and missing calls
	for nwant := 0; nwant <= 2; nwant++ {
		for ncall := 0; ncall <= 3; ncall++ {
			if !e.mine() {
				continue
			}
			e.evals.Add(1)
			rec := &recTB{}
			var want []tr
			for i := 0; i < nwant; i++ {
				want = append(want, tr{Message: []byte{byte('m'), byte('0' + i)}, Topic: fmt.Sprintf("t%d", i)})
			}
			rs := mqtttest.NewReadSlicesMock(rec, want...)
			okSeq := true
			for i := 0; i < ncall; i++ {
				m, tp, err := rs()
				if i < nwant {
					if !bytes.Equal(m, want[i].Message) || string(tp) != want[i].Topic || err != nil {
						okSeq = false
					}
					if len(m) > 0 {
						m[0] = 'X' // must not alias the expectation
					}
				} else if err == nil {
					okSeq = false
				}
			}
			rec.finish()
			deviates := ncall != nwant
			e.distinct[fmt.Sprintf("rsmock/%d/%d", nwant, ncall)] = true
			if !okSeq {
				e.violate("C20", "readslices-mock-sequence", "ReadSlices mock with %d transfers, %d calls: wrong returns", nwant, ncall)
			}
			if deviates != (len(rec.errors) > 0) {
				e.violate("C20", "readslices-mock-count", "ReadSlices mock with %d transfers, %d calls: reported %v", nwant, ncall, rec.errors)
			}
			for i := range want {
				if want[i].Message[0] != 'm' {
					e.violate("C20", "readslices-mock-aliases", "ReadSlices mock handed out its expectation's slice")
				}
			}
		}
	}
	// stubs
	if e.shard == 0 {
		fix := tr{Message: []byte("abc"), Topic: "t", Err: io.EOF}
		stub := mqtttest.NewReadSlicesStub(fix)
		m1, t1, err := stub()
		if !bytes.Equal(m1, fix.Message) || string(t1) != "t" || err != io.EOF {
			e.violate("C20", "readslices-stub", "stub returned %q %q %v", m1, t1, err)
		}
		m1[0], t1[0] = 'X', 'X'
		m2, t2, _ := stub()
		if !bytes.Equal(m2, []byte("abc")) || string(t2) != "t" || fix.Message[0] != 'a' {
			e.violate("C20", "readslices-stub-aliases", "mutating a stub return changed the next return")
		}
		// two results alive at once are private to each other
		if m1[0] != 'X' || t1[0] != 'X' {
			e.violate("C20", "readslices-stub-aliases", "a later invocation overwrote a slice returned earlier")
		}
		m2[1], t2[0] = 'Y', 'Y'
		if m1[1] != 'b' || t1[0] != 'X' {
			e.violate("C20", "readslices-stub-aliases", "writing to one returned slice shows in another")
		}
		for _, fixErr := range []error{nil, io.EOF} {
			for qi, quit := range []<-chan struct{}{nil, make(chan struct{}), closedQuit} {
				for name, f := range map[string]func(<-chan struct{}) error{
					"publish":     func(q <-chan struct{}) error { return mqtttest.NewPublishStub(fixErr)(q, nil, "t") },
					"subscribe":   func(q <-chan struct{}) error { return mqtttest.NewSubscribeStub(fixErr)(q, "t") },
					"unsubscribe": func(q <-chan struct{}) error { return mqtttest.NewUnsubscribeStub(fixErr)(q, "t") },
				} {
					err := f(quit)
					e.evals.Add(1)
					if qi == 2 && !errors.Is(err, mqtt.ErrCanceled) || qi != 2 && err != fixErr {
						e.violate("C20", "stub-contract", "%s stub (fix %v, quit variant %d) returned %v", name, fixErr, qi, err)
					}
				}
			}
		}
		// one stub, two invocations: what the first one met (a closed quit) must not stick
		for _, fixErr := range []error{nil, io.EOF} {
			for name, mk := range map[string]func() func(<-chan struct{}) error{
				"publish": func() func(<-chan struct{}) error {
					st := mqtttest.NewPublishStub(fixErr)
					return func(q <-chan struct{}) error { return st(q, nil, "t") }
				},
				"subscribe": func() func(<-chan struct{}) error {
					st := mqtttest.NewSubscribeStub(fixErr)
					return func(q <-chan struct{}) error { return st(q, "t") }
				},
				"unsubscribe": func() func(<-chan struct{}) error {
					st := mqtttest.NewUnsubscribeStub(fixErr)
					return func(q <-chan struct{}) error { return st(q, "t") }
				},
			} {
				quits := []<-chan struct{}{nil, make(chan struct{}), closedQuit}
				for q1 := range quits {
					for q2 := range quits {
						st := mk()
						st(quits[q1])
						err := st(quits[q2])
						e.evals.Add(1)
						if q2 == 2 && !errors.Is(err, mqtt.ErrCanceled) || q2 != 2 && err != fixErr {
							e.violate("C20", "stub-contract#sequence", "%s stub (fix %v): invocation with quit variant %d after one with variant %d returned %v", name, fixErr, q2, q1, err)
						}
					}
				}
			}
		}
		// exchange stub scripts (runs in a bubble: the stub sleeps)
		entries := []error{errors.New("plain"), fmt.Errorf("wrapped: %w", mqtt.ErrClosed), mqtttest.ExchangeBlock{}, mqtttest.ExchangeBlock{Delay: time.Millisecond},
			mqtttest.ExchangeBlock{Delay: -time.Millisecond}} // a delay that has elapsed already: only zero means indefinite
		var scripts [][]error
		var gen func(prefix []error, n int)
		gen = func(prefix []error, n int) {
			scripts = append(scripts, prefix)
			if n == 0 {
				return
			}
			for _, x := range entries {
				gen(append(append([]error{}, prefix...), x), n-1)
			}
		}
		gen(nil, 3)
		for _, script := range scripts {
			e.evals.Add(1)
			// which scripts must the constructor refuse?
			refuse := false
			for i, x := range script {
				var blk mqtttest.ExchangeBlock
				last := i == len(script)-1
				if errors.Is(x, mqtt.ErrClosed) && !last {
					refuse = true
				}
				if errors.As(x, &blk) && blk.Delay == 0 && !last {
					refuse = true
				}
			}
			var stubf func(message []byte, topic string) (<-chan error, error)
			panicked := false
			func() {
				defer func() {
					if recover() != nil {
						panicked = true
					}
				}()
				stubf = mqtttest.NewPublishExchangeStub(nil, script...)
			}()
			e.distinct[fmt.Sprintf("xs/%d/%t", len(script), refuse)] = true
			if panicked != refuse {
				e.violate("C20", "exchange-stub-constructor", "script %v: constructor panicked=%t, want %t", script, panicked, refuse)
				continue
			}
			if refuse {
				continue
			}
			var got []error
			closed := false
			func() {
				defer func() { recover() }()
				synctest.Test(e3T, func(t *testing.T) {
					ch, err := stubf([]byte("m"), "t")
					if err != nil {
						got = append(got, err)
						return
					}
					timeout := time.After(time.Second)
					for {
						select {
						case x, ok := <-ch:
							if !ok {
								closed = true
								return
							}
							got = append(got, x)
						case <-timeout:
							return
						}
					}
				})
			}()
			var want []error
			stayOpen := false
			for _, x := range script {
				var blk mqtttest.ExchangeBlock
				switch {
				case errors.As(x, &blk):
					if blk.Delay == 0 {
						stayOpen = true
					}
				default:
					want = append(want, x)
					if errors.Is(x, mqtt.ErrClosed) {
						stayOpen = true
					}
				}
			}
			okSeq := len(got) == len(want)
			for i := range got {
				if okSeq && got[i] != want[i] {
					okSeq = false
				}
			}
			if !okSeq || closed == stayOpen {
				e.violate("C20", "exchange-stub-script", "script %v delivered %v closed=%t, want %v closed=%t", script, got, closed, want, !stayOpen)
			}
		}
		// Two overlapping exchanges of one stub. The stub's goroutine has no
		// synchronisation operation between taking a script entry apart
		// (errors.As) and acting on it, but errors.As runs the entry's own As
		// method — user code, which may block. For every script and every
		// block entry k: exchange A is held inside the As of its k-th block
		// entry, exchange B runs as far as it gets, A is released. Each must
		// deliver the script on its own (one preemption at every such point).
		for _, script := range scripts {
			blocks := 0
			bad := false
			for i, x := range script {
				var blk mqtttest.ExchangeBlock
				last := i == len(script)-1
				if errors.Is(x, mqtt.ErrClosed) && !last {
					bad = true
				}
				if errors.As(x, &blk) {
					blocks++
					if blk.Delay == 0 && !last {
						bad = true
					}
				}
			}
			if bad || blocks == 0 {
				continue
			}
			for hold := 1; hold <= blocks; hold++ {
				e.evals.Add(1)
				ctl := &asCtl{hold: -1, held: make(chan struct{}), resume: make(chan struct{})}
				gated := make([]error, len(script))
				for i, x := range script {
					var blk mqtttest.ExchangeBlock
					if errors.As(x, &blk) {
						gated[i] = gatedBlock{blk.Delay, ctl}
					} else {
						gated[i] = x
					}
				}
				var want []error
				stayOpen := false
				for _, x := range gated {
					switch {
					case errors.As(x, new(mqtttest.ExchangeBlock)):
						if x.(gatedBlock).delay == 0 {
							stayOpen = true
						}
					default:
						want = append(want, x)
						if errors.Is(x, mqtt.ErrClosed) {
							stayOpen = true
						}
					}
				}
				stub := mqtttest.NewPublishExchangeStub(nil, gated...)
				var got [2][]error
				var closed [2]bool
				func() {
					defer func() { recover() }()
					synctest.Test(e3T, func(t *testing.T) {
						drain := func(i int, ch <-chan error) {
							for x := range ch {
								got[i] = append(got[i], x)
							}
							closed[i] = true
						}
						ctl.resume = make(chan struct{}) // a channel of the bubble
						ctl.calls.Store(0)
						ctl.hold = int64(hold)
						chA, _ := stub([]byte("a"), "t")
						go drain(0, chA)
						synctest.Wait() // A sits inside As of its hold-th block entry
						chB, _ := stub([]byte("b"), "t")
						go drain(1, chB)
						time.Sleep(20 * time.Millisecond) // B runs through its delays
						synctest.Wait()
						close(ctl.resume)
						time.Sleep(20 * time.Millisecond)
						synctest.Wait()
						// drainers of channels that stay open by contract remain blocked:
						// the bubble then ends with synctest's panic, recovered outside
					})
				}()
				for i := range got {
					okSeq := len(got[i]) == len(want)
					for j := range got[i] {
						if okSeq && got[i][j] != want[j] {
							okSeq = false
						}
					}
					if !okSeq || closed[i] == stayOpen {
						e.violate("C20", "exchange-stub-overlap", "script %v with exchange A held at block entry %d while exchange B runs: exchange %c delivered %v closed=%t, want %v closed=%t", script, hold, 'A'+i, got[i], closed[i], want, !stayOpen)
					}
				}
				e.distinct[fmt.Sprintf("xo/%d/%d", len(script), hold)] = true
			}
		}
		errStub := mqtttest.NewPublishExchangeStub(io.EOF)
		if ch, err := errStub(nil, "t"); err != io.EOF || ch != nil {
			e.violate("C20", "exchange-stub-errfix", "errFix stub returned %v %v", ch, err)
		}
	}
	e.sample("publish mock: %d expectation lists x %d call sequences x 3 quit variants", len(wants), len(calls))
}

var e3T *testing.T

// gatedBlock is an ExchangeBlock entry as user code may supply it: an error
// type of its own that presents itself through the errors.As protocol, and
// whose As method is a scheduling point.
type gatedBlock struct {
	delay time.Duration
	ctl   *asCtl
}

type asCtl struct {
	calls  atomic.Int64
	hold   int64 // the As call to hold, counted from arming; -1 none
	held   chan struct{}
	resume chan struct{}
}

func (g gatedBlock) Error() string { return "gated block" }
func (g gatedBlock) As(target any) bool {
	p, ok := target.(*mqtttest.ExchangeBlock)
	if !ok {
		return false
	}
	*p = mqtttest.ExchangeBlock{Delay: g.delay}
	if g.ctl.hold > 0 && g.ctl.calls.Add(1) == g.ctl.hold {
		<-g.ctl.resume
	}
	return true
}

func trs(l []mqtttest.Transfer) string {
	var s []string
	for _, t := range l {
		if t.Err != nil {
			s = append(s, fmt.Sprintf("(%q,%q,err)", t.Message, t.Topic))
			continue
		}
		s = append(s, fmt.Sprintf("(%q,%q)", t.Message, t.Topic))
	}
	return "[" + strings.Join(s, " ") + "]"
}
