package mc

// E3: bounded exhaustive input enumeration of the sequential parts, against
// the reference codec. No scheduler: the hook variables stay nil.

import (
	"bytes"
	"context"
	"errors"
	"fmt"
	"io"
	"net"
	"os"
	"sort"
	"strings"
	"sync"
	"sync/atomic"
	"testing"
	"time"

	"github.com/pascaldekloe/mqtt"
)

type e3 struct {
	res      *WorkerResult
	shard    int
	nshards  int
	n        int // case counter for sharding
	evals    atomic.Int64
	distinct map[string]bool
	viols    map[string]*FoundViolation
	samples  []string
	beat     atomic.Int64 // bumped per case; the watchdog in TestE3 reads it
	doing    atomic.Value // string: what the enumeration is calling right now
}

// at names the call that comes next, for the report of a call that never returns.
func (e *e3) at(format string, a ...any) {
	e.doing.Store(fmt.Sprintf(format, a...))
	e.beat.Add(1)
}

func (e *e3) mine() bool {
	e.beat.Add(1)
	e.n++
	return e.n%e.nshards == e.shard
}

func (e *e3) violate(prop, sig, format string, a ...any) {
	k := prop + "|" + sig
	if v := e.viols[k]; v != nil {
		v.Count++
		return
	}
	e.viols[k] = &FoundViolation{Prop: prop, Sig: sig, Detail: fmt.Sprintf(format, a...), Scenario: "e3:" + e.res.Scenario, Count: 1}
}

func (e *e3) sample(format string, a ...any) {
	if len(e.samples) < 6 {
		e.samples = append(e.samples, fmt.Sprintf(format, a...))
	}
}

// e3Stall is how long one case of an enumeration may take before it counts as hung.
const e3Stall = 60 * time.Second

var e3tests = map[string]func(e *e3, thorough bool){}

func TestE3(t *testing.T) {
	name := os.Getenv("VERIF_SCN")
	f := e3tests[name]
	if f == nil {
		t.Skip("no such E3 check")
	}
	loadKnown()
	e3T = t
	mqtt.VerifGate, mqtt.VerifGateSel, mqtt.VerifGoStart, mqtt.VerifGoEnd, mqtt.VerifPanic, mqtt.VerifLockWait = nil, nil, nil, nil, nil, nil
	e := &e3{res: &WorkerResult{Scenario: name, Outcomes: map[string]int{}}, nshards: 1, distinct: map[string]bool{}, viols: map[string]*FoundViolation{}}
	if s := os.Getenv("VERIF_SHARD"); s != "" {
		fmt.Sscanf(s, "%d/%d", &e.shard, &e.nshards)
	}
	e3cur = e
	t0 := time.Now()
	// A call that spins or blocks for ever would take the worker down with a
	// test timeout. The enumerations finish in seconds altogether, so a minute
	// without reaching the next case is reported as a call that never returns.
	done := make(chan struct{})
	go func() {
		defer close(done)
		f(e, os.Getenv("VERIF_BOUND") == "thorough")
	}()
	hung := false
	for last, since := int64(-1), time.Now(); !hung; {
		select {
		case <-done:
		case <-time.After(2 * time.Second):
			if b := e.beat.Load() + e.evals.Load(); b != last {
				last, since = b, time.Now()
			} else if time.Since(since) > e3Stall {
				hung = true
			}
			continue
		}
		break
	}
	if hung {
		what, _ := e.doing.Load().(string)
		if what == "" {
			what = fmt.Sprintf("case %d", e.n)
		}
		prop := strings.ToUpper(name[:3])
		if targetProp != "" {
			prop = targetProp
		}
		viols := map[string]*FoundViolation{prop + "|call-never-returns#e3": {Prop: prop, Sig: "call-never-returns#e3", Scenario: "e3:" + name, Count: 1,
			Detail: fmt.Sprintf("the enumeration made no progress for %v inside %s: a library call neither returns nor fails", e3Stall, what)}}
		for k, v := range e.viols { // what the stuck enumeration had found before
			viols[k] = v
		}
		e.viols = viols
	}
	r := e.res
	r.Shard = fmt.Sprintf("%d/%d", e.shard, e.nshards)
	r.Bound = os.Getenv("VERIF_BOUND")
	r.Execs = int(e.evals.Load())
	r.Transitions = int(e.evals.Load())
	r.States = len(e.distinct)
	for k := range e.distinct {
		if len(r.Outcomes) < 200 {
			r.Outcomes[k] = 1
		}
	}
	r.Exhaustive = len(r.ToolErrs) == 0
	r.LevelDone, r.LevelMax = 1, 1
	r.Samples = [][]string{e.samples}
	for _, v := range e.viols {
		r.Violations = append(r.Violations, v)
	}
	sort.Slice(r.Violations, func(i, j int) bool { return r.Violations[i].Sig < r.Violations[j].Sig })
	r.WallS = time.Since(t0).Seconds()
	if hung {
		r.Exhaustive = false
		r.StoppedBy = "call never returns"
	}
	if out := os.Getenv("VERIF_OUT"); out != "" {
		writeJSON(out, r)
		if hung {
			os.Exit(0) // the stuck goroutine cannot be stopped
		}
	} else {
		for _, v := range r.Violations {
			fmt.Println("VIOLATION", v.Prop, v.Sig, v.Count, v.Detail)
		}
		fmt.Printf("%s: %d evaluations, %d distinct, %.1fs\n", name, e.evals.Load(), len(e.distinct), r.WallS)
	}
}

// plainStore is a map Persistence that counts operations.
type plainStore struct {
	mu  sync.Mutex
	m   map[uint][]byte
	ops int
	// alias: Load hands out the stored slice itself, as the library's own
	// in-memory map does
	alias bool
}

func newPlainStore() *plainStore { return &plainStore{m: map[uint][]byte{}} }
func (s *plainStore) Load(key uint) ([]byte, error) {
	s.mu.Lock()
	defer s.mu.Unlock()
	if s.alias {
		return s.m[key], nil
	}
	return clone(s.m[key]), nil
}
func (s *plainStore) Save(key uint, v net.Buffers) error {
	s.mu.Lock()
	defer s.mu.Unlock()
	s.ops++
	s.m[key] = flat(v)
	return nil
}
func (s *plainStore) Delete(key uint) error {
	s.mu.Lock()
	defer s.mu.Unlock()
	s.ops++
	delete(s.m, key)
	return nil
}
func (s *plainStore) List() ([]uint, error) {
	s.mu.Lock()
	defer s.mu.Unlock()
	var keys []uint
	for k := range s.m {
		keys = append(keys, k)
	}
	return keys, nil
}

// loopConn is a net.Conn with a built-in answering machine: it records the
// client's bytes and replies like the reference broker would, synchronously.
type loopConn struct {
	mu      sync.Mutex
	cond    *sync.Cond
	in      []byte
	out     []byte
	pos     int
	closed  bool
	discard bool // do not keep payload bytes (huge packets)
	total   int
	mute    bool
	// SUBSCRIBE packets whose first filter equals holdFilter get no answer
	holdFilter string
	heldID     uint16
	after      []byte // sent right behind the CONNACK
}

func newLoopConn() *loopConn {
	c := &loopConn{}
	c.cond = sync.NewCond(&c.mu)
	return c
}

func (c *loopConn) Read(p []byte) (int, error) {
	c.mu.Lock()
	defer c.mu.Unlock()
	for len(c.in) == 0 && !c.closed {
		c.cond.Wait()
	}
	if len(c.in) == 0 {
		return 0, net.ErrClosed
	}
	n := copy(p, c.in)
	c.in = c.in[n:]
	return n, nil
}

func (c *loopConn) Write(p []byte) (int, error) {
	c.mu.Lock()
	defer c.mu.Unlock()
	if c.closed {
		return 0, net.ErrClosed
	}
	c.total += len(p)
	c.out = append(c.out, p...)
	for {
		b := c.out[c.pos:]
		n, err := splitPacket(b)
		if err != nil {
			break
		}
		pkt := b[:n]
		c.pos += n
		if c.mute {
			continue
		}
		switch pkt[0] >> 4 {
		case tCONNECT:
			c.in = append(c.in, 0x20, 2, 0, 0)
			c.in = append(c.in, c.after...)
			c.after = nil
		case tPUBLISH:
			if p, err := decodeClientPacket(pkt); err == nil {
				switch p.QoS {
				case 1:
					c.in = append(c.in, encAck(tPUBACK, p.ID)...)
				case 2:
					c.in = append(c.in, encAck(tPUBREC, p.ID)...)
				}
			}
		case tPUBREL:
			c.in = append(c.in, 0x70, 2, pkt[2], pkt[3])
		case tSUBSCRIBE:
			if p, err := decodeClientPacket(pkt); err == nil {
				if c.holdFilter != "" && p.Filters[0] == c.holdFilter {
					c.heldID = p.ID
					continue
				}
				c.in = append(c.in, encSuback(p.ID, p.Levels)...)
			}
		case tUNSUBSCRIBE:
			if p, err := decodeClientPacket(pkt); err == nil {
				c.in = append(c.in, encAck(tUNSUBACK, p.ID)...)
			}
		case tPINGREQ:
			c.in = append(c.in, 0xd0, 0)
		}
	}
	c.cond.Broadcast()
	return len(p), nil
}

func (c *loopConn) Close() error {
	c.mu.Lock()
	c.closed = true
	c.cond.Broadcast()
	c.mu.Unlock()
	return nil
}
func (c *loopConn) LocalAddr() net.Addr              { return simAddr{} }
func (c *loopConn) RemoteAddr() net.Addr             { return simAddr{} }
func (c *loopConn) SetDeadline(time.Time) error      { return nil }
func (c *loopConn) SetReadDeadline(time.Time) error  { return nil }
func (c *loopConn) SetWriteDeadline(time.Time) error { return nil }
func (c *loopConn) packets() (pk []*Packet, rest []byte) {
	c.mu.Lock()
	defer c.mu.Unlock()
	b := c.out
	for len(b) > 0 {
		n, err := splitPacket(b)
		if err != nil {
			return pk, b
		}
		p, err := decodeClientPacket(clone(b[:n]))
		if err != nil {
			pk = append(pk, &Packet{Type: -1, Raw: clone(b[:n]), Topic: err.Error()})
		} else {
			pk = append(pk, p)
		}
		b = b[n:]
	}
	return pk, nil
}
func (c *loopConn) reset() {
	c.mu.Lock()
	c.out = c.out[:0]
	c.pos = 0
	c.mu.Unlock()
}

// onlineClient returns a connected client over a loopConn with a drain
// goroutine on ReadSlices.
func onlineClient(cfg mqtt.Config, store mqtt.Persistence) (*mqtt.Client, *loopConn, func(), error) {
	conn := newLoopConn()
	cfg.Dialer = func(ctx context.Context) (net.Conn, error) { return conn, nil }
	var c *mqtt.Client
	var err error
	if store == nil {
		c, err = mqtt.VolatileSession("e3", &cfg)
	} else {
		c, err = mqtt.InitSession("e3", store, &cfg)
	}
	if err != nil {
		return nil, nil, nil, err
	}
	done := make(chan struct{})
	go func() {
		defer close(done)
		for {
			_, _, err := c.ReadSlices()
			if errors.Is(err, mqtt.ErrClosed) {
				return
			}
			if err != nil {
				var big *mqtt.BigMessage
				if !errors.As(err, &big) {
					return
				}
			}
		}
	}()
	<-c.Online()
	conn.reset()
	stop := func() {
		if e := e3cur; e != nil {
			e.at("Close at the end of the enumeration")
		}
		go c.Close()
		select {
		case <-done:
		case <-time.After(e3Stall / 2):
			// reported rather than waited for: the enumeration's findings so far matter more
			if e := e3cur; e != nil {
				prop := strings.ToUpper(e.res.Scenario[:3])
				e.violate(prop, "close-never-returns#e3", "Close did not end the read routine within %v at the end of the enumeration", e3Stall/2)
			}
		}
	}
	return c, conn, stop, nil
}

// e3cur is the running enumeration, for reports from helpers.
var e3cur *e3

var _ = bytes.Equal
var _ = io.EOF
var _ = strings.Contains
