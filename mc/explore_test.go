package mc

import (
	"encoding/json"
	"fmt"
	"os"
	"runtime"
	"sort"
	"strconv"
	"strings"
	"testing"
	"time"
)

type FoundViolation struct {
	Prop     string   `json:"property"`
	Sig      string   `json:"sig"`
	Detail   string   `json:"detail"`
	Scenario string   `json:"scenario"`
	Choices  []int    `json:"choices"`
	Labels   []string `json:"labels"`
	Cost     string   `json:"cost"`
	Trace    []string `json:"trace,omitempty"`
	Count    int      `json:"count"`
}

type Explorer struct {
	t        *testing.T
	scn      *Scenario
	bound    Cost
	level    int // total deviations allowed in this iteration
	noPrune  bool
	seen     map[uint64]struct{}
	states   map[uint64]struct{}
	shard    int
	nshards  int
	shardAt  int
	taskIdx  int
	deadline time.Time
	timedOut bool
	memStop  bool

	Execs       int
	Transitions int
	PrunedExecs int
	Horizons    int
	Leaks       int
	Flaky       int
	Quiet       int
	Outcomes    map[string]int
	Viols       map[string]*FoundViolation // by prop+sig
	ToolErrs    []string
	Replays     int
	Samples     [][]string
	MaxSteps    int
	LevelDone   int
	dup         bool // executions above the shard level are shared by all shards
}

func costHash(c Cost) uint64 {
	return uint64(uint8(c.P)) | uint64(uint8(c.F))<<8 | uint64(uint8(c.C))<<16 | uint64(uint8(c.S))<<24 | uint64(uint8(c.Sel))<<32 | uint64(uint8(c.T))<<40
}

func (e *Explorer) visit(key uint64, spent Cost) bool {
	e.states[key] = struct{}{}
	if e.noPrune {
		return false
	}
	k := key ^ (costHash(spent)+1)*0x9e3779b97f4a7c15
	if _, ok := e.seen[k]; ok {
		return true
	}
	e.seen[k] = struct{}{}
	return false
}

func (c Cost) total() int { return int(c.P) + int(c.F) + int(c.C) + int(c.S) + int(c.Sel) + int(c.T) }

func (e *Explorer) record(x *Exec, depth int) {
	if depth < e.shardAt && e.shard != 0 {
		return // counted by shard 0
	}
	e.Execs++
	e.Transitions += x.Steps
	if x.Steps > e.MaxSteps {
		e.MaxSteps = x.Steps
	}
	if x.Pruned {
		e.PrunedExecs++
		return
	}
	if x.Horizon {
		e.Horizons++
	}
	if x.Leak {
		e.Leaks++
	}
	if len(e.Outcomes) < 5000 {
		e.Outcomes[x.Outcome]++
	} else if _, ok := e.Outcomes[x.Outcome]; ok {
		e.Outcomes[x.Outcome]++
	}
	if len(e.Samples) < 3 && (len(e.Samples) == 0 || depth > 0) {
		e.Samples = append(e.Samples, compactLabels(x))
	}
}

func compactLabels(x *Exec) []string {
	var out []string
	for i, l := range x.Labels {
		if x.Choices[i] != 0 {
			out = append(out, fmt.Sprintf("@%d alt %d: %s", i, x.Choices[i], l))
		}
	}
	out = append(out, fmt.Sprintf("steps=%d outcome=%s", x.Steps, x.Outcome))
	return out
}

func (e *Explorer) handleViolations(x *Exec) {
	for _, v := range x.Viol {
		k := v.Prop + "|" + v.Sig
		if fv := e.Viols[k]; fv != nil {
			fv.Count++
			continue
		}
		if targetProp != "" && v.Prop != targetProp {
			// another property's monitor fired in this scenario: listed in the
			// evidence, not decided here, hence not worth three replays
			e.Viols[k] = &FoundViolation{Prop: v.Prop, Sig: v.Sig, Detail: v.Detail, Scenario: e.scn.Name, Choices: trimChoices(x.Choices), Count: 1}
			continue
		}
		// believe it only if it reproduces: three replays with the same log
		// and the same violation. A first round that disagrees gets one more
		// round before it counts as a tool error (a worker starved by a busy
		// machine has once produced a stray divergence; two in a row have not
		// been seen), and is counted in the result.
		ok := false
		var firstErr string
		for round := 0; round < 2 && !ok; round++ {
			ok = true
			errsBefore := len(e.ToolErrs)
			e.verifyReplays(x, v, k, &ok)
			if !ok && round == 0 {
				firstErr = e.ToolErrs[len(e.ToolErrs)-1]
				e.ToolErrs = e.ToolErrs[:errsBefore]
				e.Flaky++
			} else if !ok {
				e.ToolErrs = append(e.ToolErrs, "earlier round: "+firstErr)
			}
		}
		if !ok {
			continue
		}
		tr := runExec(e.t, e.scn, x.Choices, nil, true)
		cost := Cost{}
		for i, c := range x.Choices {
			cost = cost.add(x.Points[i].costs[c])
		}
		e.Viols[k] = &FoundViolation{Prop: v.Prop, Sig: v.Sig, Detail: v.Detail, Scenario: e.scn.Name,
			Choices: trimChoices(x.Choices), Labels: compactLabels(x), Cost: cost.String(), Trace: tr.Trace, Count: 1}
	}
}

func (e *Explorer) verifyReplays(x *Exec, v Violation, k string, ok *bool) {
	for i := 0; i < 3; i++ {
		y := runExec(e.t, e.scn, x.Choices, nil, false)
		e.Replays++
		found := false
		for _, v2 := range y.Viol {
			if v2.Prop == v.Prop && v2.Sig == v.Sig {
				found = true
			}
		}
		// an execution that ended on a state seen before is a prefix of its replay
		if !found || y.LogH != x.LogH && !x.Pruned {
			*ok = false
			var sigs []string
			for _, v2 := range y.Viol {
				sigs = append(sigs, v2.Prop+"|"+v2.Sig)
			}
			e.ToolErrs = append(e.ToolErrs, fmt.Sprintf("violation %s did not reproduce on replay (logH %x vs %x, found=%t, replay had %v, steps %d vs %d, outcome %q vs %q, detail %s) choices=%s", k, x.LogH, y.LogH, found, sigs, x.Steps, y.Steps, x.Outcome, y.Outcome, v.Detail, rle(x.Choices)))
			return
		}
	}
}

// rle renders a choice list compactly: "0x37 2 0x5 1".
func rle(c []int) string {
	var b strings.Builder
	for i := 0; i < len(c); {
		j := i
		for j < len(c) && c[j] == c[i] {
			j++
		}
		if j-i > 1 {
			fmt.Fprintf(&b, "%dx%d ", c[i], j-i)
		} else {
			fmt.Fprintf(&b, "%d ", c[i])
		}
		i = j
	}
	return b.String()
}

func trimChoices(c []int) []int {
	n := len(c)
	for n > 0 && c[n-1] == 0 {
		n--
	}
	return append([]int{}, c[:n]...)
}

func (e *Explorer) explore(prefix []int, depth int) {
	if e.timedOut || len(e.ToolErrs) > 5 {
		return
	}
	if !e.deadline.IsZero() && time.Now().After(e.deadline) {
		e.timedOut = true
		return
	}
	if e.Execs%512 == 511 {
		// leaked goroutines of hung executions and the visited-state sets grow; stop
		// gracefully (exhaustive:false) before the address-space limit kills the worker
		var ms runtime.MemStats
		runtime.ReadMemStats(&ms)
		if ms.HeapInuse+ms.StackInuse > memCap {
			e.timedOut = true
			e.memStop = true
			return
		}
	}
	x := runExec(e.t, e.scn, prefix, e, false)
	if x.ToolErr != "" {
		e.ToolErrs = append(e.ToolErrs, fmt.Sprintf("%s (prefix %v)", x.ToolErr, prefix))
		return
	}
	e.record(x, depth)
	if len(x.Viol) > 0 {
		e.handleViolations(x)
	}
	if (e.Execs+1)%selfCheckEvery == 0 && !x.Pruned {
		// determinism self-check. A divergence is a tool error when it shows
		// again among two more replays (a single stray one is counted and
		// reported in the result: see DESIGN §4.1).
		same := func(a, b *Exec) bool {
			return a.LogH == b.LogH && a.Outcome == b.Outcome && len(a.Choices) == len(b.Choices)
		}
		y := runExec(e.t, e.scn, x.Choices, nil, false)
		e.Replays++
		if !same(x, y) {
			e.Flaky++
			y2 := runExec(e.t, e.scn, x.Choices, nil, false)
			y3 := runExec(e.t, e.scn, x.Choices, nil, false)
			e.Replays += 2
			if os.Getenv("VERIF_DEBUG_DIVERGE") != "" {
				a := runExec(e.t, e.scn, x.Choices, nil, true)
				fmt.Fprintf(os.Stderr, "DIVERGENCE logH %x vs %x (then %x %x); trace of another replay (%x):\n%s\n", x.LogH, y.LogH, y2.LogH, y3.LogH, a.LogH, strings.Join(a.Trace, "\n"))
			}
			if !same(y2, y3) || (!same(x, y2) && !same(y, y2)) {
				e.ToolErrs = append(e.ToolErrs, fmt.Sprintf("replay divergence: logH %x vs %x vs %x vs %x, outcome %q vs %q, points %d vs %d, choices %v", x.LogH, y.LogH, y2.LogH, y3.LogH, x.Outcome, y.Outcome, len(x.Choices), len(y.Choices), trimChoices(x.Choices)))
			}
		}
	}
	for i := len(prefix); i < len(x.Points); i++ {
		pt := x.Points[i]
		for a := 1; a < len(pt.costs); a++ {
			c := pt.spent.add(pt.costs[a])
			if !c.le(e.bound) || c.total() > e.level {
				continue
			}
			if depth+1 == e.shardAt {
				e.taskIdx++
				if e.taskIdx%e.nshards != e.shard {
					continue
				}
			}
			child := make([]int, i+1)
			copy(child, x.Choices[:i])
			child[i] = a
			e.explore(child, depth+1)
		}
	}
}

func parseBound(s string) Cost {
	var c Cost
	for _, f := range strings.Split(s, ",") {
		kv := strings.SplitN(strings.TrimSpace(f), "=", 2)
		if len(kv) != 2 {
			continue
		}
		n, _ := strconv.Atoi(kv[1])
		switch kv[0] {
		case "p":
			c.P = int8(n)
		case "f":
			c.F = int8(n)
		case "c":
			c.C = int8(n)
		case "s":
			c.S = int8(n)
		case "sel":
			c.Sel = int8(n)
		case "t":
			c.T = int8(n)
		}
	}
	return c
}

type WorkerResult struct {
	Scenario     string            `json:"scenario"`
	Bound        string            `json:"bound"`
	Shard        string            `json:"shard"`
	Execs        int               `json:"execs"`
	Transitions  int               `json:"transitions"`
	States       int               `json:"states"`
	Pruned       int               `json:"pruned"`
	Horizons     int               `json:"horizons"`
	Leaks        int               `json:"leaks,omitempty"`               // executions that left blocked goroutines behind
	Flaky        int               `json:"flaky_verifications,omitempty"` // verification rounds that disagreed and were repeated
	Goroutines   int               `json:"goroutines,omitempty"`
	HeapMiB      int               `json:"heap_mib,omitempty"`
	Outcomes     map[string]int    `json:"outcomes"`
	Violations   []*FoundViolation `json:"violations"`
	ToolErrs     []string          `json:"tool_errors"`
	Replays      int               `json:"replays"`
	Samples      [][]string        `json:"samples"`
	LevelDone    int               `json:"level_done"`
	LevelMax     int               `json:"level_max"`
	Exhaustive   bool              `json:"exhaustive"`
	WallS        float64           `json:"wall_s"`
	MaxSteps     int               `json:"max_steps"`
	ExecsByLevel []int             `json:"execs_by_level"`
	StoppedBy    string            `json:"stopped_by,omitempty"`
}

// exploreScenario runs the iterative bounded search for one scenario.
func exploreScenario(t *testing.T, scn *Scenario, bound Cost, shard, nshards int, deadline time.Time, noPrune bool) *WorkerResult {
	t0 := time.Now()
	res := &WorkerResult{Scenario: scn.Name, Bound: bound.String(), Shard: fmt.Sprintf("%d/%d", shard, nshards), Outcomes: map[string]int{}}
	viols := map[string]*FoundViolation{}
	states := map[uint64]struct{}{}
	res.LevelMax = bound.total()
	res.Exhaustive = true
	for level := 0; level <= bound.total(); level++ {
		if level > 0 && level < bound.total() && level < bound.total()-1 {
			// levels below max-1 are subsumed quickly; still run them so the
			// first counterexample has the fewest deviations
		}
		e := &Explorer{t: t, scn: scn, bound: bound, level: level, noPrune: noPrune, seen: map[uint64]struct{}{}, states: states,
			shard: shard, nshards: nshards, deadline: deadline, Outcomes: res.Outcomes, Viols: viols}
		e.shardAt = min(2, level)
		if nshards == 1 {
			e.shardAt = 0
		}
		e.explore(nil, 0)
		res.Execs += e.Execs
		res.Transitions += e.Transitions
		res.Pruned += e.PrunedExecs
		res.Horizons += e.Horizons
		res.Leaks += e.Leaks
		res.Flaky += e.Flaky
		res.Replays += e.Replays
		res.ToolErrs = append(res.ToolErrs, e.ToolErrs...)
		res.ExecsByLevel = append(res.ExecsByLevel, e.Execs)
		if e.MaxSteps > res.MaxSteps {
			res.MaxSteps = e.MaxSteps
		}
		if level == bound.total() || len(res.Samples) == 0 {
			res.Samples = e.Samples
		}
		if e.timedOut {
			res.Exhaustive = false
			if e.memStop {
				res.StoppedBy = "memory cap"
			} else {
				res.StoppedBy = "deadline"
			}
			break
		}
		if len(e.ToolErrs) > 0 {
			res.Exhaustive = false
			break
		}
		res.LevelDone = level
		// stop at the first level with a violation outside the known list
		stop := false
		for _, v := range viols {
			if !isKnown(v) && (targetProp == "" || v.Prop == targetProp) {
				stop = true
			}
		}
		if stop {
			res.Exhaustive = false
			break
		}
	}
	res.States = len(states)
	for _, v := range viols {
		res.Violations = append(res.Violations, v)
	}
	sort.Slice(res.Violations, func(i, j int) bool { return res.Violations[i].Sig < res.Violations[j].Sig })
	res.WallS = time.Since(t0).Seconds()
	{
		var ms runtime.MemStats
		runtime.ReadMemStats(&ms)
		res.HeapMiB = int((ms.HeapInuse + ms.StackInuse) >> 20)
		res.Goroutines = runtime.NumGoroutine()
	}
	return res
}

// memCap bounds the heap of one worker (VERIF_MEMCAP in MiB, default 2500).
var memCap = func() uint64 {
	if v, err := strconv.Atoi(os.Getenv("VERIF_MEMCAP")); err == nil && v > 0 {
		return uint64(v) << 20
	}
	return 2500 << 20
}()

// selfCheckEvery: every n-th execution is replayed and compared (VERIF_SELFCHECK).
var selfCheckEvery = func() int {
	if v, err := strconv.Atoi(os.Getenv("VERIF_SELFCHECK")); err == nil && v > 0 {
		return v
	}
	return 97
}()

// targetProp is the property the check was started for (VERIF_PROP).
var targetProp = os.Getenv("VERIF_PROP")

func writeJSON(path string, v any) {
	b, err := json.MarshalIndent(v, "", " ")
	if err != nil {
		panic(err)
	}
	if err := os.WriteFile(path, b, 0o644); err != nil {
		panic(err)
	}
}
