package mc

func getg() uintptr
