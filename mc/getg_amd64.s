#include "textflag.h"

TEXT ·getg(SB),NOSPLIT,$0-8
	MOVQ (TLS), R14
	MOVQ R14, ret+0(FP)
	RET
