module verif/mc

go 1.26

require github.com/pascaldekloe/mqtt v0.0.0

replace github.com/pascaldekloe/mqtt => /repo
