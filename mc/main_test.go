package mc

import (
	"encoding/json"
	"fmt"
	"os"
	"runtime/pprof"
	"strconv"
	"strings"
	"testing"
	"time"
)

var scenarios = map[string]func() *Scenario{}

func register(name string, f func() *Scenario) {
	scenarios[name] = func() *Scenario {
		s := f()
		s.Name = name
		return s
	}
}

// known findings: property|sig entries with status "known"
var knownSigs = map[string]bool{}

func loadKnown() {
	path := os.Getenv("VERIF_KNOWN")
	if path == "" {
		return
	}
	b, err := os.ReadFile(path)
	if err != nil {
		return
	}
	var kf struct {
		Findings []struct {
			Property string `json:"property"`
			Sig      string `json:"sig"`
			Status   string `json:"status"`
		} `json:"findings"`
	}
	if json.Unmarshal(b, &kf) == nil {
		for _, f := range kf.Findings {
			if f.Status == "known" {
				knownSigs[f.Property+"|"+f.Sig] = true
			}
		}
	}
}

func isKnown(v *FoundViolation) bool {
	if knownSigs[v.Prop+"|"+v.Sig] {
		return true
	}
	// signatures may carry a variable suffix after '#'
	if i := strings.IndexByte(v.Sig, '#'); i >= 0 {
		return knownSigs[v.Prop+"|"+v.Sig[:i]]
	}
	return false
}

// TestWorker explores one scenario shard; configured through the environment.
func TestWorker(t *testing.T) {
	name := os.Getenv("VERIF_SCN")
	if name == "" {
		t.Skip("VERIF_SCN not set")
	}
	loadKnown()
	mk := scenarios[name]
	if mk == nil {
		t.Fatalf("unknown scenario %q", name)
	}
	scn := mk()
	bound := parseBound(os.Getenv("VERIF_BOUND"))
	shard, nshards := 0, 1
	if s := os.Getenv("VERIF_SHARD"); s != "" {
		fmt.Sscanf(s, "%d/%d", &shard, &nshards)
	}
	var deadline time.Time
	if s := os.Getenv("VERIF_DEADLINE"); s != "" {
		sec, _ := strconv.Atoi(s)
		deadline = time.Now().Add(time.Duration(sec) * time.Second)
	}
	res := exploreScenario(t, scn, bound, shard, nshards, deadline, os.Getenv("VERIF_NOPRUNE") != "")
	if os.Getenv("VERIF_DEBUG_LEAK") != "" {
		pprof.Lookup("goroutine").WriteTo(os.Stderr, 1)
	}
	if out := os.Getenv("VERIF_OUT"); out != "" {
		writeJSON(out, res)
	} else {
		b, _ := json.MarshalIndent(res, "", " ")
		fmt.Println(string(b))
	}
}

// TestReplay re-executes a recorded choice list with a verbose trace.
func TestReplay(t *testing.T) {
	path := os.Getenv("VERIF_REPLAY")
	if path == "" {
		t.Skip("VERIF_REPLAY not set")
	}
	b, err := os.ReadFile(path)
	if err != nil {
		t.Fatal(err)
	}
	var fv FoundViolation
	if err := json.Unmarshal(b, &fv); err != nil {
		t.Fatal(err)
	}
	mk := scenarios[fv.Scenario]
	if mk == nil {
		t.Fatalf("unknown scenario %q", fv.Scenario)
	}
	x := runExec(t, mk(), fv.Choices, nil, true)
	for _, l := range x.Trace {
		fmt.Println(l)
	}
	fmt.Println("outcome:", x.Outcome)
	if x.ToolErr != "" {
		fmt.Println("TOOL-ERROR:", x.ToolErr)
	}
	for _, v := range x.Viol {
		fmt.Printf("VIOLATION property=%s sig=%s %s\n", v.Prop, v.Sig, v.Detail)
	}
}
