package mc

import (
	"bytes"
	"strings"
)

// wp is one complete client packet on the wire with its place in the log.
type wp struct {
	p     *Packet
	conn  *simConn
	start int // log index of the write that carried its first byte
	end   int // log index of the write that completed it
}

// wireTimeline reconstructs when each packet went out. Connections whose
// bytes do not parse are cut at the first error (C08 reports those).
func (w *World) wireTimeline() (all []wp, tails map[int][]byte) {
	tails = map[int][]byte{}
	type st struct {
		buf   []byte
		start int
	}
	per := map[int]*st{}
	bad := map[int]bool{}
	connByID := map[int]*simConn{}
	for _, c := range w.conns {
		connByID[c.id] = c
	}
	for i, e := range w.log {
		if e.K != "write" || len(e.B) == 0 || bad[e.C] {
			continue
		}
		s := per[e.C]
		if s == nil {
			s = &st{}
			per[e.C] = s
		}
		if len(s.buf) == 0 {
			s.start = i
		}
		s.buf = append(s.buf, e.B...)
		for len(s.buf) > 0 {
			n, err := splitPacket(s.buf)
			if err == errIncomplete {
				break
			}
			if err != nil {
				bad[e.C] = true
				break
			}
			p, err := decodeClientPacket(clone(s.buf[:n]))
			if err != nil {
				bad[e.C] = true
				break
			}
			all = append(all, wp{p: p, conn: connByID[e.C], start: s.start, end: i})
			s.buf = s.buf[n:]
			s.start = i
		}
	}
	for id, s := range per {
		if len(s.buf) > 0 {
			tails[id] = s.buf
		}
	}
	return all, tails
}

// seqLess orders two identifiers of one level by distance from base.
func seqDist(id, base uint16) int { return int((id - base) & 0x3fff) }

// monitorOrder checks C05: acceptance order on the wire per level, resends
// ascending from the oldest unacknowledged, PUBREL order, DUP discipline and
// the order in which exchanges close.
func (w *World) monitorOrder() {
	tl, tails := w.wireTimeline()
	// save order per level and generation
	type saved struct {
		id  uint16
		idx int
		gen int
	}
	var saves [3][]saved
	for i, e := range w.log {
		if e.K == "store" && e.S == "save" && e.R == "" && e.N >= 0x8000 && e.N < 1<<16 {
			if pkt, _, ok := refDecodeValue(e.B); ok && len(pkt) > 0 && pkt[0]>>4 == tPUBLISH {
				lvl := int(pkt[0] >> 1 & 3)
				saves[lvl] = append(saves[lvl], saved{uint16(e.N), i, e.Gen})
			}
		}
	}
	for lvl := 1; lvl <= 2; lvl++ {
		// first appearance order == save order
		var first []uint16
		seenAt := map[int]bool{} // save instance index
		for _, x := range tl {
			if x.p.Type != tPUBLISH || x.p.QoS != lvl {
				continue
			}
			// which save instance: the latest save of this id before the packet started
			inst := -1
			for k, s := range saves[lvl] {
				if s.id == x.p.ID && s.idx < x.start {
					inst = k
				}
			}
			if inst < 0 {
				w.Violate("C05", "publish-without-save", "c%d: %s on the wire before its record was saved", x.conn.id, x.p)
				continue
			}
			if !seenAt[inst] {
				seenAt[inst] = true
				first = append(first, x.p.ID)
				// all earlier save instances must have appeared already
				for k := 0; k < inst; k++ {
					if !seenAt[k] {
						w.Violate("C05", "wire-order", "level %d: %#04x (accepted as number %d) appeared on the wire before %#04x (accepted as number %d)", lvl, x.p.ID, inst, saves[lvl][k].id, k)
						seenAt[k] = true
					}
				}
			}
		}
		// per connection ascending
		perConn := map[int][]wp{}
		for _, x := range tl {
			if x.p.Type == tPUBLISH && x.p.QoS == lvl {
				perConn[x.conn.id] = append(perConn[x.conn.id], x)
			}
		}
		for cid, l := range perConn {
			for k := 1; k < len(l); k++ {
				// instance indices must ascend
				a, b := -1, -1
				for j, s := range saves[lvl] {
					if s.id == l[k-1].p.ID && s.idx < l[k-1].start {
						a = j
					}
					if s.id == l[k].p.ID && s.idx < l[k].start {
						b = j
					}
				}
				if b <= a {
					w.Violate("C05", "conn-order", "c%d level %d: %s written after %s", cid, lvl, l[k].p, l[k-1].p)
				}
			}
		}
	}
	// PUBREL order per connection follows PUBREC order (== sequence order)
	relPer := map[int][]uint16{}
	for _, x := range tl {
		if x.p.Type == tPUBREL {
			relPer[x.conn.id] = append(relPer[x.conn.id], x.p.ID)
		}
	}
	for cid, ids := range relPer {
		for k := 1; k < len(ids); k++ {
			if d := seqDist(ids[k], ids[k-1]); d == 0 || d > 0x2000 {
				// a repeat of the same PUBREL is fine when its write had failed before
				if ids[k] != ids[k-1] {
					w.Violate("C05", "pubrel-order", "c%d: PUBREL %#04x after PUBREL %#04x", cid, ids[k], ids[k-1])
				}
			}
		}
	}
	// DUP discipline within one process (generation)
	for i, x := range tl {
		if x.p.Type != tPUBLISH || x.p.QoS == 0 {
			continue
		}
		gen := x.conn.gen
		// save instance start (same generation?)
		saveIdx, saveGen := -1, -1
		for _, s := range saves[x.p.QoS] {
			if s.id == x.p.ID && s.idx < x.start {
				saveIdx, saveGen = s.idx, s.gen
			}
		}
		if saveIdx < 0 {
			continue
		}
		if saveGen != gen {
			continue // resumed after a restart: DUP accepted either way
		}
		complete, partial := false, false
		for _, y := range tl[:i] {
			if y.p.Type == tPUBLISH && y.p.ID == x.p.ID && y.start > saveIdx && y.conn.gen == gen {
				complete = true
			}
		}
		for _, c := range w.conns {
			if c.id >= x.conn.id || c.gen != gen {
				continue
			}
			if t := tails[c.id]; len(t) > 0 && len(t) <= len(x.p.Raw) {
				a, b := clone(t), clone(x.p.Raw[:len(t)])
				a[0] |= 8
				b[0] |= 8
				if bytes.Equal(a, b) {
					partial = true
				}
			}
		}
		switch {
		case complete && !x.p.Dup:
			w.Violate("C05", "dup-missing", "c%d: retransmission of %s lacks DUP although it was written completely before", x.conn.id, x.p)
		case !complete && !partial && x.p.Dup:
			w.Violate("C05", "dup-on-first", "c%d: first transmission of %s carries DUP", x.conn.id, x.p)
		}
	}
	// exchanges close in acceptance order per level (per generation)
	var lastIdx [3]int
	lastIdx = [3]int{-1, -1, -1}
	for _, e := range w.log {
		if e.K != "xclosed" {
			continue
		}
		for _, x := range w.xchs {
			if x.actor == e.T && x.idx == e.N && x.gen == e.Gen {
				lvl := int(x.op.Kind[3] - '0')
				id := w.idOf(&x.op)
				si := -1
				for k, s := range saves[lvl] {
					if s.id == id && s.gen == x.gen {
						si = k
					}
				}
				if si < lastIdx[lvl] {
					w.Violate("C05", "exchange-close-order", "level %d: exchange of %#04x closed after a later one", lvl, id)
				}
				lastIdx[lvl] = si
			}
		}
	}
}

// monitorPubrelWire: wire-level view of the exactly-once handshake for
// sessions without an observable store: every PUBREL the client writes answers
// a PUBREC the broker sent for that identifier, per connection the PUBRELs go
// out in PUBREC order, and a retransmitted PUBREL belongs to a PUBREC'd,
// not yet completed transfer.
func (w *World) monitorPubrelWire(prop string) {
	tl, _ := w.wireTimeline()
	recd := map[uint16]bool{} // PUBREC sent by the broker, PUBCOMP not yet
	var order []uint16        // PUBREC order
	for i, e := range w.log {
		if e.K == "bk-send" && len(e.B) == 4 {
			id := uint16(e.B[2])<<8 | uint16(e.B[3])
			switch e.B[0] >> 4 {
			case tPUBREC:
				if !recd[id] {
					recd[id] = true
					order = append(order, id)
				}
			case tPUBCOMP:
				// completed once the client read it; keep it simple: completion at send
			}
		}
		_ = i
	}
	perConn := map[int][]uint16{}
	for _, x := range tl {
		if x.p.Type != tPUBREL {
			continue
		}
		if !recd[x.p.ID] {
			w.Violate(prop, "pubrel-without-pubrec", "c%d: PUBREL %#04x although the broker never sent PUBREC for that identifier", x.conn.id, x.p.ID)
		}
		perConn[x.conn.id] = append(perConn[x.conn.id], x.p.ID)
	}
	pos := map[uint16]int{}
	for i, id := range order {
		pos[id] = i
	}
	if w.horizonHit {
		w.Violate(prop, "no-stabilisation", "execution did not become quiet within %d steps", w.step)
	}
	// per connection: the PUBRELs for what was PUBREC'd before it was dialled
	// (and not completed) go out before any PUBREL for something newer
	for cid, ids := range perConn {
		seen := map[uint16]bool{}
		for _, id := range ids {
			for _, older := range order[:pos[id]] {
				if !seen[older] && !w.completedBeforeConn(older, cid) {
					w.Violate(prop, "pubrel-skipped", "c%d: PUBREL %#04x written although PUBREL %#04x (PUBREC'd earlier, not completed) has not been written on this connection", cid, id, older)
				}
			}
			seen[id] = true
		}
	}
	for cid, ids := range perConn {
		for k := 1; k < len(ids); k++ {
			// a repeated PUBREL is tolerated: the retry of a failed write and the
			// retransmission from the store can both send it on the next connection
			if ids[k] != ids[k-1] && pos[ids[k]] < pos[ids[k-1]] {
				w.Violate(prop, "pubrel-order", "c%d: PUBREL %#04x after PUBREL %#04x, against the order of the PUBRECs", cid, ids[k], ids[k-1])
			}
		}
	}
}

// completedBeforeConn: the client had read PUBCOMP id before it dialled conn.
func (w *World) completedBeforeConn(id uint16, conn int) bool {
	sent := false
	for _, e := range w.log {
		if e.K == "dial" && e.C == conn {
			return false
		}
		if e.K == "bk-send" && len(e.B) == 4 && e.B[0]>>4 == tPUBCOMP && uint16(e.B[2])<<8|uint16(e.B[3]) == id {
			sent = true
		}
		if sent && e.K == "read" && containsPacket(e.B, encAck(tPUBCOMP, id)) {
			return true
		}
	}
	return false
}

// monitorQoS2Out checks C03: once the PUBREL record of n is stored no PUBLISH
// n goes out until PUBCOMP n was processed; PUBREL n goes out on every
// accepted connection in between.
func (w *World) monitorQoS2Out() {
	tl, _ := w.wireTimeline()
	for i, e := range w.log {
		if e.K != "store" || e.S != "save" || e.R != "" || e.N < 0xc000 || e.N >= 1<<16 {
			continue
		}
		pkt, _, ok := refDecodeValue(e.B)
		if !ok || len(pkt) == 0 || pkt[0]>>4 != tPUBREL {
			continue
		}
		id := uint16(e.N)
		// until the record is deleted
		end := len(w.log)
		for j := i + 1; j < len(w.log); j++ {
			if f := w.log[j]; f.K == "store" && f.S == "delete" && f.R == "" && f.N == e.N {
				end = j
				break
			}
		}
		for _, x := range tl {
			if x.p.Type == tPUBLISH && x.p.ID == id && x.start > i && x.start < end {
				w.Violate("C03", "publish-after-pubrec", "c%d: PUBLISH %#04x written at step %d although its PUBREC was recorded at step %d", x.conn.id, id, w.log[x.start].Step, e.Step)
			}
		}
		// connections accepted inside (i, end) that lived long enough must carry PUBREL id
		for _, c := range w.conns {
			if !c.bk.connected {
				continue
			}
			dialIdx := -1
			for j, f := range w.log {
				if f.K == "dial" && f.C == c.id {
					dialIdx = j
				}
			}
			if dialIdx < i || dialIdx > end {
				continue
			}
			has := false
			for _, x := range tl {
				if x.conn == c && x.p.Type == tPUBREL && x.p.ID == id {
					has = true
				}
			}
			if !has && !c.dead && !c.closed && w.quiet && !w.horizonHit {
				w.Violate("C03", "pubrel-not-resent", "c%d was accepted while PUBREL %#04x was pending, stayed up, yet never carried it", c.id, id)
			}
		}
	}
}

var _ = strings.Contains
