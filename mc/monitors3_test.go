package mc

import (
	"errors"
	"fmt"
	"strings"
	"time"

	"github.com/pascaldekloe/mqtt"
)

// threadWrites lists the write events of an actor's call (between its call
// and ret events).
func (w *World) callSpan(actor string, idx int, gen int) (from, to int) {
	from, to = -1, len(w.log)
	for i, e := range w.log {
		if e.T == actor && e.N == idx && e.Gen == gen && e.S != "rs" {
			if e.K == "call" {
				from = i
			}
			if e.K == "ret" {
				to = i
			}
		}
	}
	return
}

// monitorRequests checks C11 and the per-call part of C14 for Subscribe,
// Unsubscribe, Ping and plain Publish calls.
func (w *World) monitorRequests() {
	for _, e := range w.log {
		if e.K == "backoff" && e.N == -2 {
			w.Violate("C14", "readbackoff-after-close", "ReadBackoff(%s) returned a channel; the permanent class gets nil", e.R)
			break
		}
	}
	tl, _ := w.wireTimeline()
	stable := w.quiet && !w.horizonHit
	if w.horizonHit {
		w.Violate("C11", "no-stabilisation", "execution did not become quiet within %d steps", w.step)
	}
	var backoffProbes []error
	defer func() {
		// Backoff is nil exactly for the permanent classes; evaluated by a helper
		// goroutine because Backoff may touch the signal holders, which a parked
		// goroutine can hold at the end of an execution
		if len(backoffProbes) == 0 || !stable {
			return
		}
		c := w.client
		res := make([]bool, len(backoffProbes))
		done := false
		w.sch.spawnFree("backoff-probe", func() {
			for i, err := range backoffProbes {
				res[i] = c.Backoff(err) == nil
			}
			done = true
		})
		synctestWait()
		if !done {
			return
		}
		for i, err := range backoffProbes {
			var se mqtt.SubscribeError
			perm := err == nil || mqtt.IsDeny(err) || mqtt.IsEnd(err) || errors.As(err, &se)
			if res[i] != perm {
				w.Violate("C14", "backoff-class", "Backoff(%v) nil=%t, want nil=%t", err, res[i], perm)
			}
		}
	}()
	for _, a := range w.actors {
		if a.spec.Reader != nil {
			continue
		}
		tname := a.th.name
		if stable && !a.finished && a.gen == w.gen {
			op := a.spec.Ops[a.pc]
			if op.Kind == "ping" && w.pingVanished(a) {
				w.Violate("C11", "ping-callback-vanished", "%s op %d (ping) waits for ever after another Ping left through its error/quit path during this call (slot emptied unconditionally)", a.spec.Name, a.pc)
			} else if op.Kind != "online" && op.Kind != "offline" && !w.mutedOnLive(op.Kind) && !w.blockedInWrite(a) {
				w.Violate("C11", "call-never-returns#"+op.Kind, "%s op %d (%s) has not returned at quiescence; thread at %s", a.spec.Name, a.pc, op.Kind, a.th.site)
			}
		}
		for ri := range a.results {
			r := &a.results[ri]
			op := &a.spec.Ops[r.Idx]
			from, to := w.callSpan(a.spec.Name, r.Idx, a.gen)
			if from < 0 {
				continue
			}
			// writes of this thread inside the call
			var wrote, failedWrite bool
			var wroteBytes int
			for _, e := range w.log[from:to] {
				if e.K == "write" && e.T == tname {
					if len(e.B) > 0 {
						wrote = true
						wroteBytes += len(e.B)
					}
					if e.R != "" {
						failedWrite = true
					}
				}
			}
			quitFired := op.Quit == quitClosed
			for _, e := range w.log[from:to] {
				if e.K == "quit" && e.T == a.spec.Name {
					quitFired = true
				}
			}
			cl := r.Class
			has := func(c string) bool { return strings.Contains(cl, c) }
			// documented classes per method
			allowed := map[string][]string{
				"pub0": {"nil", "ErrClosed", "ErrDown", "ErrCanceled", "Deny", "ErrSubmit"},
				"sub":  {"nil", "ErrClosed", "ErrDown", "ErrMax", "ErrCanceled", "Deny", "SubscribeError", "ErrSubmit", "ErrBreak", "ErrAbandoned"},
				"ping": {"nil", "ErrClosed", "ErrDown", "ErrMax", "ErrCanceled", "ErrSubmit", "ErrBreak", "ErrAbandoned"},
				"disc": {"nil", "ErrClosed", "ErrDown", "ErrCanceled", "ErrSubmit"},
				"pub1": {"nil", "ErrClosed", "ErrMax", "Deny", "StoreErr"},
			}
			kind := op.Kind
			switch {
			case strings.HasPrefix(kind, "pub0"):
				kind = "pub0"
			case strings.HasPrefix(kind, "pub"):
				kind = "pub1"
			case strings.HasPrefix(kind, "sub"), kind == "unsub":
				kind = "sub"
			}
			if al, ok := allowed[kind]; ok {
				okc := false
				for _, c := range al {
					if has(c) {
						okc = true
					}
				}
				if !okc {
					w.Violate("C14", "undocumented-error#"+kind, "%s op %d (%s) returned %s: %v", a.spec.Name, r.Idx, op.Kind, cl, r.Err)
				}
			}
			if r.Err != nil && mqtt.IsDeny(r.Err) && mqtt.IsEnd(r.Err) {
				w.Violate("C14", "deny-and-end", "%s op %d (%s) returned %v, which is IsDeny and IsEnd at once", a.spec.Name, r.Idx, op.Kind, r.Err)
			}
			if kind != "close" && kind != "online" && kind != "offline" && w.client != nil {
				backoffProbes = append(backoffProbes, r.Err)
			}
			if kind == "close" {
				continue
			}
			// "not submitted" classes: no byte of the request was written
			if (has("ErrClosed") || has("ErrDown") || has("ErrMax") || has("ErrCanceled") || has("Deny")) && wrote && kind != "pub1" {
				w.Violate("C14", "not-submitted-but-written#"+kind, "%s op %d (%s) returned %s although %d bytes of it were written", a.spec.Name, r.Idx, op.Kind, cl, wroteBytes)
			}
			if quitFired && r.Err != nil && !has("ErrCanceled") && !has("ErrAbandoned") && kind != "pub1" {
				// quit may lose against a result that was ready as well; but an error
				// other than the two quit classes needs its own cause
				if !(has("ErrSubmit") && failedWrite) && !has("ErrBreak") && !has("ErrClosed") && !has("ErrDown") && !has("ErrMax") && !has("SubscribeError") && !has("Deny") {
					w.Violate("C14", "quit-other-error", "%s op %d (%s) with quit returned %s", a.spec.Name, r.Idx, op.Kind, cl)
				}
			}
			if (has("ErrCanceled") || has("ErrAbandoned")) && !quitFired {
				w.Violate("C11", "quit-class-without-quit", "%s op %d (%s) returned %s although quit never fired", a.spec.Name, r.Idx, op.Kind, cl)
			}
			if has("ErrCanceled") && wrote {
				w.Violate("C11", "canceled-after-write", "%s op %d (%s) returned ErrCanceled after writing", a.spec.Name, r.Idx, op.Kind)
			}
			if has("ErrAbandoned") && !wrote {
				w.Violate("C11", "abandoned-without-write", "%s op %d (%s) returned ErrAbandoned without a write", a.spec.Name, r.Idx, op.Kind)
			}
			if has("ErrSubmit") && !failedWrite && kind != "disc" {
				w.Violate("C11", "submit-error-without-failed-write", "%s op %d (%s) returned ErrSubmit but none of its writes failed", a.spec.Name, r.Idx, op.Kind)
			}
			// a persisted publish that returned an error was dropped: no record of it
			if kind == "pub1" && r.Err != nil && len(op.Msg) >= 4 {
				for _, e := range w.log[from:to] {
					if e.K == "store" && e.S == "save" && e.R == "" && bytesContains(e.B, op.Msg) {
						w.Violate("C14", "refused-publish-stored", "%s op %d (%s) returned %s, yet its packet was saved under key %#x", a.spec.Name, r.Idx, op.Kind, cl, e.N)
					}
				}
			}
			// the packet of this request on the wire
			var mine *wp
			for i := range tl {
				x := &tl[i]
				if x.start < from || x.start > to || w.log[x.start].T != tname {
					continue
				}
				switch {
				case kind == "sub" && (x.p.Type == tSUBSCRIBE || x.p.Type == tUNSUBSCRIBE),
					kind == "ping" && x.p.Type == tPINGREQ,
					kind == "pub0" && x.p.Type == tPUBLISH,
					kind == "disc" && x.p.Type == tDISCONNECT:
					mine = x
				}
			}
			if r.Err == nil && mine == nil && kind != "pub1" && kind != "online" && kind != "offline" {
				w.Violate("C08", "success-without-packet#"+kind, "%s op %d (%s) returned nil but its packet is not completely on the wire", a.spec.Name, r.Idx, op.Kind)
			}
			if has("ErrBreak") {
				// its connection must have been lost (or the client closed) before the response
				if mine == nil {
					w.Violate("C11", "errbreak-without-submission", "%s op %d (%s) returned ErrBreak although its packet was never written completely", a.spec.Name, r.Idx, op.Kind)
				} else if c := mine.conn; !w.connLostBefore(c, to) && !w.closeCalledBefore(to) {
					w.Violate("C11", "errbreak-on-live-connection", "%s op %d (%s) returned ErrBreak; its packet went out on c%d, which was neither lost nor closed when the call returned", a.spec.Name, r.Idx, op.Kind, c.id)
				}
			}
			switch kind {
			case "sub":
				if r.Err == nil || has("SubscribeError") {
					if mine == nil {
						continue
					}
					// the broker's answer to that very identifier on that connection, consumed before the return
					want := byte(tSUBACK)
					if op.Kind == "unsub" {
						want = tUNSUBACK
					}
					var ans []byte
					for _, e := range w.log[mine.end:to] {
						if e.K == "bk-send" && e.C == mine.conn.id && len(e.B) >= 4 && e.B[0]>>4 == want {
							if p, err := decodePacket(e.B, false); err == nil && p.ID == mine.p.ID {
								ans = e.B
							}
						}
					}
					if ans == nil && w.hostileBetween(mine.conn.id, mine.end, to) {
						continue // answered by bytes outside the conforming broker's repertoire: C13 judges those
					}
					if ans == nil {
						w.Violate("C11", "response-without-answer", "%s op %d (%s id %#04x) returned %s although the broker never answered that identifier on c%d", a.spec.Name, r.Idx, op.Kind, mine.p.ID, cl, mine.conn.id)
						continue
					}
					if want == tSUBACK {
						p, _ := decodePacket(ans, false)
						var failed []string
						for i, c := range p.Codes {
							if c == 0x80 && i < len(op.Filters) {
								failed = append(failed, op.Filters[i])
							}
						}
						var se mqtt.SubscribeError
						if r.Err != nil {
							se = r.Err.(mqtt.SubscribeError)
						}
						if !eqStrings(failed, []string(se)) {
							w.Violate("C11", "suback-mapping", "%s op %d: SUBACK codes %x for filters %q, got error %v", a.spec.Name, r.Idx, p.Codes, op.Filters, r.Err)
						}
					}
				}
			case "ping":
				if r.Err == nil && mine != nil {
					pong := false
					for _, e := range w.log[mine.end:to] {
						if e.K == "read" && e.C == mine.conn.id && containsPacket(e.B, []byte{tPINGRESP << 4, 0}) {
							pong = true
						}
					}
					// the response may have been read in one chunk with earlier bytes
					for _, e := range w.log[mine.end:to] {
						if e.K == "bk-send" && e.C == mine.conn.id && len(e.B) == 2 && e.B[0] == tPINGRESP<<4 {
							pong = true
						}
					}
					if !pong && !w.hostileBetween(mine.conn.id, mine.end, to) {
						w.Violate("C11", "ping-without-pong", "%s op %d: Ping returned nil without a PINGRESP after its PINGREQ", a.spec.Name, r.Idx)
					}
				}
			}
		}
	}
	// no response is handed to two callers: per (conn, id) the number of
	// successful calls does not exceed the number of answers
}

// pingVanished diagnoses the slot theft: while this Ping was in its call,
// another Ping left through its error or quit path (which empties the slot
// unconditionally).
func (w *World) pingVanished(a *actor) bool {
	from := -1
	for i, e := range w.log {
		if e.K == "call" && e.T == a.spec.Name && e.N == a.pc && e.Gen == a.gen && e.S == "ping" {
			from = i
		}
	}
	if from < 0 {
		return false
	}
	for _, e := range w.log[from:] {
		if e.K == "ret" && e.S == "ping" && e.T != a.spec.Name && e.R != "nil" {
			return true
		}
	}
	return false
}

func bytesContains(b, sub []byte) bool { return containsPacket(b, sub) }

func containsPacket(b, p []byte) bool {
	for i := 0; i+len(p) <= len(b); i++ {
		if string(b[i:i+len(p)]) == string(p) {
			return true
		}
	}
	return false
}

// connLostBefore reports whether c was cut, failed or closed before log index i.
func (w *World) connLostBefore(c *simConn, i int) bool {
	for _, e := range w.log[:i] {
		if e.C != c.id {
			continue
		}
		switch e.K {
		case "cut", "close", "bk-violation", "bk-hostile":
			return true
		case "write", "read":
			if e.R != "" && !strings.Contains(e.R, "timeout") {
				return true
			}
			if e.S == "lost" || e.S == "noresponse" || strings.HasSuffix(e.S, "+error") || strings.HasPrefix(e.S, "connack=") {
				return true
			}
		}
	}
	return false
}

func (w *World) closeCalledBefore(i int) bool {
	for _, e := range w.log[:i] {
		if e.K == "call" && (e.S == "close" || e.S == "disc") {
			return true
		}
	}
	return false
}

// monitorProgress checks C10 at quiescence: the read routine sits on a live
// connection, the client is online and every request returned.
func (w *World) monitorProgress() { w.monitorProgressAs("C10") }

// monitorProgressAs attributes a lack of progress to the given property.
func (w *World) monitorProgressAs(prop string) {
	// a connection that failed under the read routine is left: no later
	// read on it (a deadline expiry is not a failure of the connection)
	failedAt := map[int]int{}
	for _, e := range w.log {
		if e.K != "read" || !strings.HasSuffix(e.T, "reader") && !strings.Contains(e.T, "reader.") {
			continue
		}
		if at, bad := failedAt[e.C]; bad {
			w.Violate(prop, "read-on-failed-connection", "the read routine reads from c%d at step %d although its read at step %d had failed: the failure was returned by ReadSlices but the connection was not left (no Offline, pending requests not released, no redial)", e.C, e.Step, at)
			break
		}
		if e.R != "" && !strings.Contains(e.R, "timeout") {
			failedAt[e.C] = e.Step
		}
	}
	if w.stalledForGood() {
		return
	}
	if w.horizonHit {
		w.Violate(prop, "no-stabilisation", "execution did not become quiet within %d steps", w.step)
		return
	}
	if !w.quiet {
		return
	}
	var reader *actor
	for _, a := range w.actors {
		if a.gen == w.gen && a.spec.Reader != nil {
			reader = a
		}
	}
	if reader == nil || reader.finished {
		return
	}
	th := reader.th
	live := w.liveConn()
	if !(th.parked && th.kind == kindEnv && th.env.op == "read" && live != nil && th.env.conn == live) {
		where := th.site
		if !th.parked {
			where += " (blocked inside the library)"
		}
		w.Violate(prop, "reader-wedged", "at quiescence the read routine is not reading from a live connection: %s; state %s", where, mqtt.VerifDump(w.client))
		return
	}
	d := mqtt.VerifDump(w.client)
	if !strings.Contains(d, "on=released") || !strings.Contains(d, "writeSem="+live.String()+" ") {
		w.Violate(prop, "not-online-after-connect", "read routine reads from %s but the client is not serving: %s", live, d)
	}
	for _, a := range w.actors {
		if a.gen == w.gen && a.spec.Reader == nil && !a.finished {
			op := a.spec.Ops[a.pc]
			if op.Kind != "online" && op.Kind != "offline" && !w.blockedInWrite(a) {
				w.Violate(prop, "request-not-released#"+op.Kind, "%s op %d (%s) still pending at quiescence", a.spec.Name, a.pc, op.Kind)
			}
		}
	}
}

// stalledForGood: a writer sits in a Write to a peer that stopped reading, no
// deadline is configured, and the read side of that connection has shown no
// failure either: the application asked for waits without limit, and it got
// one. Everything else may queue up behind that writer.
func (w *World) stalledForGood() bool {
	for _, a := range w.actors {
		if a.gen != w.gen || !w.blockedInWrite(a) {
			continue
		}
		c := a.th.env.conn
		// a failure the read routine has seen: a read error, or hostile bytes it
		// has taken out of its buffer (it may queue up behind the writer with an
		// acknowledgement of its own before it looks at them)
		failed := false
		parsed := len(c.in) == 0 && w.client != nil && strings.Contains(mqtt.VerifDump(w.client), " buf=0 ")
		for _, e := range w.log {
			if e.C == c.id && (e.K == "read" && e.R != "" || (e.K == "bk-hostile" || e.K == "cut") && parsed) {
				failed = true
			}
		}
		if !failed {
			return true
		}
	}
	return false
}

// blockedInWrite: the actor's call sits in a Write on a live connection whose
// peer stopped reading, and no deadline is configured: nothing is due.
func (w *World) blockedInWrite(a *actor) bool {
	th := a.th
	return th != nil && th.parked && th.kind == kindEnv && th.env != nil && th.env.op == "write" &&
		th.env.conn.wblock && !th.env.conn.closed && !th.env.conn.dead && th.env.conn.wdl.IsZero()
}

// hostileBetween: the scenario's hostile byte string went out on that
// connection within the log range.
func (w *World) hostileBetween(conn, from, to int) bool {
	for _, e := range w.log[from:to] {
		if e.K == "bk-hostile" && e.C == conn {
			return true
		}
	}
	return false
}

// mutedOnLive: the scenario's broker withheld the answer to a request of this
// kind on the connection that is still alive: the call cannot return yet.
func (w *World) mutedOnLive(kind string) bool {
	live := w.liveConn()
	if live == nil {
		return false
	}
	typ := map[string]int{"ping": tPINGREQ, "sub": tSUBSCRIBE, "sub0": tSUBSCRIBE, "sub1": tSUBSCRIBE, "unsub": tUNSUBSCRIBE}[kind]
	if typ == 0 {
		return false
	}
	for _, e := range w.log {
		if e.K == "bk-mute" && e.C == live.id && e.N == typ {
			return true
		}
	}
	return false
}

// monitorUnexplainedErrors: ReadSlices may fail only for a reason. Once a
// connection is established (accepting CONNACK read, retransmission done) an
// error return needs a fault chosen by the explorer since then: a cut, a lost
// or failed write, a pause, a failing store operation, hostile bytes, a
// non-accepting CONNACK, a dial problem, Close/Disconnect or a crash. An error
// without any of these means the client lost its place in a well-formed
// stream or gave up on a healthy connection.
func (w *World) monitorUnexplainedErrors(prop string) {
	doomed := map[int]bool{} // connections with a lasting problem
	transient := 0           // one-off causes not yet consumed by an error return
	everything := false      // Close/Disconnect/crash in progress: anything goes
	cur := 0                 // the connection the read routine uses
	established := false
	stalled := map[int]bool{}
	expiry := false
	for i, e := range w.log {
		switch e.K {
		case "cut", "bk-hostile", "bk-violation", "wblock":
			doomed[e.C] = true
		case "stall":
			stalled[e.C] = true
		case "read":
			if stalled[e.C] && strings.Contains(e.R, "timeout") {
				stalled[e.C] = false
				expiry = true // the pause chosen earlier hit a deadline now
			}
		case "crash":
			established = false
			transient++
		case "quit":
			transient++
		case "store":
			if e.R != "" {
				transient++
			}
		case "dial":
			if e.R != "" {
				transient++
			} else {
				cur = e.C
				established = false
			}
		case "write":
			if e.R != "" || e.S == "lost" || e.S == "noresponse" || strings.HasPrefix(e.S, "connack=") || strings.HasSuffix(e.S, "+error") || strings.HasSuffix(e.S, "+timeout") {
				doomed[e.C] = true
			}
		case "close":
			if e.R != "" || !strings.HasPrefix(e.T, "a:reader") {
				doomed[e.C] = true
			}
		case "call":
			if e.S == "close" || e.S == "disc" {
				everything = true
			}
		case "ret":
			if e.S != "rs" {
				continue
			}
			if e.R == "nil" || strings.HasPrefix(e.R, "BigMessage") {
				established = true
				continue
			}
			if strings.Contains(e.R, "ErrClosed") || everything {
				continue
			}
			if !established {
				// connect attempts may fail for earlier causes (pending retransmission, refusal)
				if !doomed[cur] && transient == 0 && cur != 0 && !expiry && !stalled[cur] {
					w.Violate(prop, "unexplained-readslices-error", "ReadSlices returned %q at step %d while connecting on c%d although nothing went wrong on that connection", e.R, w.log[i].Step, cur)
					return
				}
				transient = 0
				continue
			}
			if strings.Contains(e.R, "timeout") && expiry {
				expiry = false
				continue
			}
			if !doomed[cur] && transient == 0 {
				w.Violate(prop, "unexplained-readslices-error", "ReadSlices returned %q at step %d although nothing went wrong on c%d since it was established (no cut, pause, failed or lost write, store failure or hostile byte)", e.R, w.log[i].Step, cur)
				return
			}
			transient = 0
		}
	}
}

// monitorBackoff checks the ReadBackoff clause of C10: no wait after nil or a
// BigMessage, ReconnectWaitMax after a refusal, otherwise a wait between
// ReconnectWaitMin and ReconnectWaitMax that doubles on consecutive failures
// and restarts after an established connection (errors that are not a
// connection loss — Persistence failures while connected — wait one second).
func (w *World) monitorBackoff() {
	min := int(w.scn.Config.ReconnectWaitMin / time.Millisecond)
	max := int(w.scn.Config.ReconnectWaitMax / time.Millisecond)
	prev := 0 // previous connection-loss wait since the last established connection
	for _, e := range w.log {
		switch e.K {
		case "crash":
			prev = 0
		case "ret":
			// a successful return proves an established connection (CONNACK
			// plus retransmission); the ramp restarts
			if e.S == "rs" && (e.R == "nil" || strings.HasPrefix(e.R, "BigMessage")) {
				prev = 0
			}
		case "backoff":
			switch {
			case e.N == -2:
				// ReadBackoff(ErrClosed) returned a channel: C14's business
			case e.N == -1:
				w.Violate("C10", "backoff-after-success", "ReadBackoff after %s returned a channel that is not closed", e.R)
			case strings.Contains(e.R, "Refused"):
				if e.N != max {
					w.Violate("C10", "backoff-refused", "ReadBackoff after a refused connect waited %d ms, want ReconnectWaitMax %d ms", e.N, max)
				}
			case e.N == 1000:
				// not a connection loss
			case e.N < min || e.N > max:
				w.Violate("C10", "backoff-out-of-bounds", "ReadBackoff after %s waited %d ms, outside [%d, %d] ms", e.R, e.N, min, max)
			default:
				// the wait is ReconnectWaitMin doubled once per consecutive
				// failed attempt, capped; an attempt that was accepted but
				// failed during retransmission counts as failed
				want := min
				if prev != 0 {
					want = prev * 2
					if want > max {
						want = max
					}
				}
				ladder := false
				for v := min; v <= max; v *= 2 {
					if e.N == v {
						ladder = true
					}
				}
				if e.N == max {
					ladder = true
				}
				if !ladder || e.N > want {
					w.Violate("C10", "backoff-ramp", "ReadBackoff waited %d ms after a previous %d ms, want at most %d ms on the doubling ladder from %d ms", e.N, prev, want, min)
				}
				prev = e.N
			}
		}
	}
}

// stepSignals is a StepCheck: Online and Offline are never both released.
func stepSignals(w *World) {
	if w.client == nil {
		return
	}
	d := mqtt.VerifDump(w.client)
	if strings.Contains(d, "on=released off=released") {
		w.Violate("C12", "both-signals-released", "Online and Offline both released at step %d: %s", w.step, d)
	}
}

// monitorShutdown checks C12 at the end of an execution that closed the client.
func (w *World) monitorShutdown() {
	if w.horizonHit {
		w.Violate("C12", "no-stabilisation", "execution did not become quiet within %d steps", w.step)
		return
	}
	if !w.quiet {
		return
	}
	closerReturned := false
	for _, a := range w.actors {
		if a.spec.Reader != nil {
			continue
		}
		for ri := range a.results {
			if k := a.results[ri].Op.Kind; k == "close" || k == "disc" {
				closerReturned = true
			}
		}
		if !a.finished {
			op := a.spec.Ops[a.pc]
			w.Violate("C12", "call-never-returns#"+op.Kind, "%s op %d (%s) has not returned at quiescence although the client was closed; thread at %s", a.spec.Name, a.pc, op.Kind, a.th.site)
		}
	}
	if !closerReturned {
		return
	}
	// a successful Disconnect made DISCONNECT the last packet of its connection
	{
		tl, tails := w.wireTimeline()
		for _, a := range w.actors {
			for ri := range a.results {
				r := &a.results[ri]
				if r.Op.Kind != "disc" || r.Err != nil {
					continue
				}
				from, to := w.callSpan(a.spec.Name, r.Idx, a.gen)
				var last *wp
				var mine *wp
				for i := range tl {
					x := &tl[i]
					if x.start >= from && x.start <= to && w.log[x.start].T == a.th.name && x.p.Type == tDISCONNECT {
						mine = x
					}
				}
				if mine == nil {
					w.Violate("C12", "disconnect-not-written", "%s: Disconnect returned nil without a DISCONNECT packet on the wire", a.spec.Name)
					continue
				}
				for i := range tl {
					if tl[i].conn == mine.conn {
						last = &tl[i]
					}
				}
				if last.p.Type != tDISCONNECT || len(tails[mine.conn.id]) > 0 {
					w.Violate("C12", "disconnect-not-last", "%s: Disconnect returned nil, yet c%d carries %s after the DISCONNECT", a.spec.Name, mine.conn.id, last.p)
				}
			}
		}
	}
	d := mqtt.VerifDump(w.client)
	if !strings.Contains(d, "on=blocked off=released") {
		w.Violate("C12", "signals-after-close", "after Close: %s", d)
	}
	// reader saw ErrClosed?
	readerDone := false
	for _, a := range w.actors {
		if a.spec.Reader != nil {
			if a.finished {
				readerDone = true
			} else {
				w.Violate("C12", "readslices-blocks-after-close", "ReadSlices has not returned ErrClosed at quiescence; thread at %s parked=%t", a.th.site, a.th.parked)
			}
		}
	}
	if readerDone {
		for _, x := range w.xchs {
			if x.closed {
				// closed before Close is fine when acknowledged; C01 covers it
				continue
			}
			got := false
			for _, e := range x.errs {
				if strings.Contains(classify(e), "ErrClosed") {
					got = true
				}
			}
			if !got {
				w.Violate("C12", "exchange-without-errclosed", "%s op %d: pending exchange did not receive ErrClosed after ReadSlices reported it (got %v)", x.actor, x.idx, x.errs)
			}
		}
		for _, c := range w.conns {
			if !c.closed {
				w.Violate("C12", "connection-left-open", "c%d was never closed by the client", c.id)
			}
		}
		// no library goroutine left
		w.sch.mu.Lock()
		for _, th := range w.sch.threads {
			if th.actor == nil && !th.done && !th.free && th.gen == w.sch.gen {
				w.Violate("C12", "goroutine-left-behind", "library goroutine %s still alive at %s", th.name, th.site)
			}
		}
		w.sch.mu.Unlock()
	}
	// every method returns ErrClosed now
	type probe struct {
		name string
		err  error
		done bool
	}
	c := w.client
	probes := []*probe{{name: "Publish"}, {name: "Subscribe"}, {name: "Unsubscribe"}, {name: "Ping"}, {name: "PublishAtLeastOnce"}, {name: "PublishExactlyOnce"}, {name: "Disconnect"}, {name: "Close"}}
	if !readerDone {
		probes = probes[:4] // persisted publishes may still be accepted until ReadSlices saw ErrClosed
	}
	for _, p := range probes {
		p := p
		w.sch.spawnFree("probe-"+p.name, func() {
			switch p.name {
			case "Publish":
				p.err = c.Publish(nil, []byte("x"), "probe")
			case "Subscribe":
				p.err = c.Subscribe(nil, "probe")
			case "Unsubscribe":
				p.err = c.Unsubscribe(nil, "probe")
			case "Ping":
				p.err = c.Ping(nil)
			case "PublishAtLeastOnce":
				_, p.err = c.PublishAtLeastOnce([]byte("x"), "probe")
			case "PublishExactlyOnce":
				_, p.err = c.PublishExactlyOnce([]byte("x"), "probe")
			case "Disconnect":
				p.err = c.Disconnect(nil)
			case "Close":
				p.err = c.Close()
				p.done = true
				return
			}
			p.done = true
		})
	}
	synctestWait()
	for _, p := range probes {
		switch {
		case !p.done:
			w.Violate("C12", "blocks-after-close#"+p.name, "%s blocks after Close", p.name)
		case p.name == "Close":
			if p.err != nil {
				w.Violate("C12", "close-after-close", "second Close returned %v", p.err)
			}
		case !strings.Contains(classify(p.err), "ErrClosed"):
			w.Violate("C12", "not-errclosed-after-close#"+p.name, "%s after Close returned %v", p.name, p.err)
		}
	}
}

var _ = fmt.Sprint
