package mc

import (
	"bytes"
	"fmt"
	"strings"
)

// wirePackets parses the client→broker log of a connection.
func wirePackets(c *simConn) (pkts []*Packet, tail []byte, err error) {
	b := c.out
	for len(b) > 0 {
		n, e := splitPacket(b)
		if e == errIncomplete {
			return pkts, b, nil
		}
		if e != nil {
			return pkts, b, e
		}
		p, e := decodeClientPacket(b[:n])
		if e != nil {
			return pkts, b, e
		}
		pkts = append(pkts, p)
		b = b[n:]
	}
	return pkts, nil, nil
}

// opOf finds the actor operation a PUBLISH/SUBSCRIBE/UNSUBSCRIBE belongs to.
func (w *World) opOf(p *Packet) *Op {
	for _, a := range w.actors {
		for i := range a.spec.Ops {
			op := &a.spec.Ops[i]
			switch p.Type {
			case tPUBLISH:
				if !strings.HasPrefix(op.Kind, "pub") {
					continue
				}
				qos := int(op.Kind[3] - '0')
				ret := strings.HasSuffix(op.Kind, "r")
				if qos == p.QoS && ret == p.Retain && op.Topic == p.Topic && bytes.Equal(op.Msg, p.Body) {
					return op
				}
			case tSUBSCRIBE:
				if !strings.HasPrefix(op.Kind, "sub") {
					continue
				}
				lvl := byte(2)
				if len(op.Kind) == 4 {
					lvl = op.Kind[3] - '0'
				}
				if eqStrings(op.Filters, p.Filters) && allBytes(p.Levels, lvl) {
					return op
				}
			case tUNSUBSCRIBE:
				if op.Kind == "unsub" && eqStrings(op.Filters, p.Filters) {
					return op
				}
			}
		}
	}
	return nil
}

func eqStrings(a, b []string) bool {
	if len(a) != len(b) {
		return false
	}
	for i := range a {
		if a[i] != b[i] {
			return false
		}
	}
	return true
}

func allBytes(b []byte, v byte) bool {
	for _, c := range b {
		if c != v {
			return false
		}
	}
	return true
}

// monitorWire checks C08 (whole packets only) and the field part of C09 on
// every connection of the execution, and C18's "CONNECT first".
// monitorStoreIntegrity (C15): every value handed to the Persistence follows
// the documented layout with a fresh sequence number.
func (w *World) monitorStoreIntegrity() {
	seen := map[uint64]int{}
	for _, e := range w.log {
		if e.K == "crash" {
			seen = map[uint64]int{} // damaged snapshots may lower the counter
		}
		if e.K != "store" || e.S != "save" {
			continue
		}
		_, seq, ok := refDecodeValue(e.B)
		if !ok {
			w.Violate("C15", "stored-value-corrupt", "the value saved under %#x at step %d does not follow packet ‖ LE64(seq) ‖ BE32(FNV-1a): %x", e.N, e.Step, trunc(e.B))
			continue
		}
		if e.R != "" {
			continue // a failed Save stored nothing: its number may be used again
		}
		if at, dup := seen[seq]; dup {
			w.Violate("C15", "storage-sequence-reused", "storage sequence number %d used for the save of %#x at step %d and again at step %d", seq, e.N, at, e.Step)
		}
		seen[seq] = e.Step
	}
}

func (w *World) monitorWire() {
	w.monitorStoreIntegrity()
	for _, v := range w.bk.violations {
		w.Violate("C08", "broker-protocol-violation", "conforming broker had to reject the client's bytes: %s", v)
	}
	for _, c := range w.conns {
		pkts, tail, err := wirePackets(c)
		if err != nil {
			w.Violate("C08", "wire-malformed", "c%d: client→broker bytes do not parse as packets after %d complete packets: %v; rest %x", c.id, len(pkts), err, trunc(tail))
			continue
		}
		for i, p := range pkts {
			if i == 0 && p.Type != tCONNECT {
				w.Violate("C18", "connect-not-first", "c%d: first packet is %s", c.id, p)
			}
			if i > 0 && p.Type == tCONNECT {
				w.Violate("C18", "connect-twice", "c%d: CONNECT as packet %d", c.id, i)
			}
			switch p.Type {
			case tPUBLISH, tSUBSCRIBE, tUNSUBSCRIBE:
				if w.opOf(p) == nil && !w.adoptedPacket(p) {
					w.Violate("C08", "wire-foreign-packet", "c%d: %s was not composed by any request of the scenario", c.id, p)
				}
			case tDISCONNECT:
				if i != len(pkts)-1 || len(tail) != 0 {
					w.Violate("C12", "disconnect-not-last", "c%d: DISCONNECT followed by more bytes", c.id)
				}
			}
		}
		// nothing may follow a write that failed for good
		failed := -1
		for i, e := range w.log {
			if e.K != "write" || e.C != c.id {
				continue
			}
			if failed >= 0 && len(e.B) > 0 {
				w.Violate("C08", "write-after-failed-write", "c%d: %d bytes written at step %d after the failed write at step %d", c.id, len(e.B), e.Step, w.log[failed].Step)
				break
			}
			// a deadline expiry may be survived (progress on an earlier
			// buffer of the same vectored write); hard errors may not
			if e.R != "" && !strings.Contains(e.R, "timeout") {
				failed = i
			}
		}
	}
}

// adoptedPacket reports whether p stems from a record a previous generation
// stored (its operation belongs to an earlier generation's script).
func (w *World) adoptedPacket(p *Packet) bool { return false }

func trunc(b []byte) []byte {
	if len(b) > 64 {
		return b[:64]
	}
	return b
}

// wireHas reports whether a complete PUBLISH for op was written on any
// connection, and how often the broker saw it.
func (w *World) wireCount(op *Op) (complete int) {
	for _, c := range w.conns {
		pkts, _, _ := wirePackets(c)
		for _, p := range pkts {
			if o := w.opOf(p); o == op {
				complete++
			}
		}
	}
	return
}

// markerOnWire reports whether any connection log contains the bytes.
func (w *World) markerOnWire(marker []byte) bool {
	for _, c := range w.conns {
		if bytes.Contains(c.out, marker) {
			return true
		}
	}
	return false
}

func (w *World) forwards(op *Op) int {
	n := 0
	qos := int(op.Kind[3] - '0')
	for _, f := range w.bk.forward {
		if f.QoS == qos && f.Topic == op.Topic && f.Body == string(op.Msg) {
			n++
		}
	}
	return n
}

// monitorDelivery checks the stabilised end state for C01/C03: every accepted
// persisted publish reached the broker, its exchange closed after the final
// acknowledgement, the store is clean; refused publishes left no trace.
func (w *World) monitorDelivery(prop string) {
	stable := !w.horizonHit
	if w.horizonHit {
		w.Violate(prop, "no-stabilisation", "execution did not become quiet within %d steps after the last deviation", w.step)
	}
	for _, a := range w.actors {
		for i := range a.results {
			r := &a.results[i]
			if !strings.HasPrefix(r.Op.Kind, "pub") || r.Op.Kind[3] == '0' {
				continue
			}
			op := &a.spec.Ops[r.Idx]
			qos := int(op.Kind[3] - '0')
			if r.Err != nil {
				// dropped: no trace
				if w.markerOnWire(op.Msg) && len(op.Msg) >= 4 {
					w.Violate("C14", "refused-publish-on-wire", "%s op %d returned %s yet its payload is on the wire", a.spec.Name, r.Idx, r.Class)
				}
				for k, v := range w.records() {
					if len(op.Msg) >= 4 && bytes.Contains(v, op.Msg) {
						w.Violate(prop, "refused-publish-stored", "%s op %d returned %s yet record %#x holds its payload", a.spec.Name, r.Idx, r.Class, k)
					}
				}
				continue
			}
			if a.gen != w.gen {
				continue // judged through the adopted session
			}
			if !stable || !w.quiet {
				continue
			}
			n := w.forwards(op)
			if n == 0 {
				w.Violate(prop, "accepted-never-forwarded", "%s op %d (%s) was accepted but never reached the broker", a.spec.Name, r.Idx, op.Kind)
			}
			if qos == 2 && n > 1 {
				w.Violate("C03", "exactly-once-forwarded-twice", "%s op %d forwarded %d times", a.spec.Name, r.Idx, n)
			}
			if !r.X.closed {
				w.Violate(prop, "exchange-never-closed", "%s op %d (%s): exchange still open at quiescence; errors so far %v", a.spec.Name, r.Idx, op.Kind, r.X.errs)
			}
		}
	}
	if stable && w.quiet {
		for k, v := range w.records() {
			if k != 0 && k&(1<<16) == 0 {
				w.Violate(prop, "record-left-behind", "outbound record %#x still stored at quiescence (%d bytes)", k, len(v))
			}
		}
	}
	// exchange life cycle: closed only after the broker emitted the final ack
	w.monitorExchangeOrder(prop)
}

func (w *World) monitorExchangeOrder(prop string) {
	for _, x := range w.xchs {
		if !x.closed || x.abandoned {
			continue
		}
		qos := int(x.op.Kind[3] - '0')
		want := tPUBACK
		if qos == 2 {
			want = tPUBCOMP
		}
		// find the identifier from the store log
		id := w.idOf(&x.op)
		if id == 0 && w.scn.Volatile {
			id = w.wireID(&x.op)
		}
		if id == 0 {
			w.Violate(prop, "exchange-closed-without-record", "%s op %d closed but no record was ever saved", x.actor, x.idx)
			continue
		}
		closedAt := -1
		for i, e := range w.log {
			if e.K == "xclosed" && e.T == x.actor && e.N == x.idx {
				closedAt = i
			}
		}
		acked := false
		for _, e := range w.log[:closedAt] {
			if e.K == "bk-send" && len(e.B) == 4 && int(e.B[0]>>4) == want && uint16(e.B[2])<<8|uint16(e.B[3]) == id {
				acked = true
			}
		}
		if !acked {
			w.Violate(prop, "exchange-closed-without-ack", "%s op %d: exchange closed although the broker never sent %s %#04x", x.actor, x.idx, typeNames[want], id)
		}
		for _, err := range x.errs {
			cl := classify(err)
			if !strings.Contains(cl, "ErrDown") && !strings.Contains(cl, "ErrSubmit") && !strings.Contains(cl, "ErrClosed") {
				w.Violate("C14", "exchange-undocumented-error", "%s op %d: exchange received %s (%v)", x.actor, x.idx, cl, err)
			}
		}
	}
}

// wireID returns the identifier op's PUBLISH carried on the wire (sessions
// without an observable store).
func (w *World) wireID(op *Op) uint16 {
	for _, c := range w.conns {
		pkts, _, _ := wirePackets(c)
		for _, p := range pkts {
			if p.Type == tPUBLISH && p.Topic == op.Topic && string(p.Body) == string(op.Msg) {
				return p.ID
			}
		}
	}
	return 0
}

// idOf returns the packet identifier under which op's packet was saved.
func (w *World) idOf(op *Op) uint16 {
	for _, e := range w.log {
		if e.K == "store" && e.S == "save" && e.R == "" && e.N != 0 && e.N < 1<<16 {
			if pkt, _, ok := refDecodeValue(e.B); ok && len(pkt) > 0 && pkt[0]>>4 == tPUBLISH {
				if p, err := decodeClientPacket(pkt); err == nil && p.Topic == op.Topic && bytes.Equal(p.Body, op.Msg) {
					return p.ID
				}
			}
		}
	}
	return 0
}

var _ = fmt.Sprint
