package mc

// Free-running bodies for the race pass. The scheduler hands control from one
// goroutine to the next through channels, and every such hand-over is a
// happens-before edge: under it the race detector can report nothing. Code
// between two scheduling points is therefore checked separately: the same
// kinds of concurrent use, on real goroutines without the scheduler, in a
// binary built with -race. The check reads the detector's reports from
// GORACE=log_path; the bodies themselves judge nothing.

import (
	"errors"
	"fmt"
	"os"
	"sync"
	"time"

	"github.com/pascaldekloe/mqtt"
	"github.com/pascaldekloe/mqtt/mqtttest"
)

func init() {
	// every double of mqtttest used from several goroutines at once
	e3tests["race-doubles"] = func(e *e3, thorough bool) {
		if e.shard != 0 {
			return
		}
		entries := []error{errors.New("plain"), mqtttest.ExchangeBlock{Delay: time.Millisecond}, mqtttest.ExchangeBlock{Delay: 2 * time.Millisecond},
			mqtttest.ExchangeBlock{}, fmt.Errorf("wrapped: %w", mqtt.ErrClosed)}
		var scripts [][]error
		var gen func(prefix []error, n int)
		gen = func(prefix []error, n int) {
			scripts = append(scripts, prefix)
			if n == 0 {
				return
			}
			if l := len(prefix); l > 0 && (prefix[l-1] == entries[3] || prefix[l-1] == entries[4]) {
				return // nothing may follow an indefinite block or ErrClosed
			}
			for _, x := range entries {
				gen(append(append([]error{}, prefix...), x), n-1)
			}
		}
		gen(nil, 3)
		for _, script := range scripts {
			e.at("exchange stub %v, three overlapping exchanges", script)
			stub := mqtttest.NewPublishExchangeStub(nil, script...)
			var wg sync.WaitGroup
			for g := 0; g < 3; g++ {
				wg.Add(1)
				go func() {
					defer wg.Done()
					ch, err := stub([]byte("m"), "t")
					if err != nil {
						return
					}
					timeout := time.After(20 * time.Millisecond)
					for {
						select {
						case _, ok := <-ch:
							if !ok {
								return
							}
						case <-timeout:
							return
						}
					}
				}()
			}
			wg.Wait()
			e.evals.Add(1)
			e.distinct[fmt.Sprintf("xs/%d", len(script))] = true
		}
		// mocks and plain stubs: matching calls from three goroutines
		for round := 0; round < 20; round++ {
			e.at("mocks and stubs from three goroutines, round %d", round)
			tb := &recTB{}
			tr := mqtttest.Transfer{Message: []byte("m"), Topic: "t"}
			pub := mqtttest.NewPublishMock(tb, tr, tr, tr)
			sub := mqtttest.NewSubscribeMock(tb, mqtttest.Filter{Topics: []string{"a", "b"}}, mqtttest.Filter{Topics: []string{"a", "b"}}, mqtttest.Filter{Topics: []string{"a", "b"}})
			unsub := mqtttest.NewUnsubscribeMock(tb, mqtttest.Filter{Topics: []string{"a"}}, mqtttest.Filter{Topics: []string{"a"}}, mqtttest.Filter{Topics: []string{"a"}})
			rs := mqtttest.NewReadSlicesMock(tb, tr, tr, tr)
			rstub := mqtttest.NewReadSlicesStub(tr)
			pstub := mqtttest.NewPublishStub(nil)
			sstub := mqtttest.NewSubscribeStub(nil)
			ustub := mqtttest.NewUnsubscribeStub(nil)
			var wg sync.WaitGroup
			for g := 0; g < 3; g++ {
				wg.Add(1)
				go func() {
					defer wg.Done()
					pub(nil, []byte("m"), "t")
					sub(nil, "b", "a")
					unsub(nil, "a")
					m, t, _ := rs()
					m2, t2, _ := rstub()
					if len(m) > 0 && len(m2) > 0 {
						m[0], m2[0] = 'x', 'y' // private copies may be written to
					}
					if len(t) > 0 && len(t2) > 0 {
						t[0], t2[0] = 'x', 'y'
					}
					pstub(nil, []byte("m"), "t")
					sstub(nil, "f")
					ustub(nil, "f")
				}()
			}
			wg.Wait()
			tb.finish()
			e.evals.Add(1)
		}
		e.distinct["mocks"] = true
		e.sample("%d exchange stub scripts, each with three overlapping exchanges; mocks and stubs called from three goroutines", len(scripts))
	}

	// every kind of request from its own goroutine against one client, then Close
	e3tests["race-client"] = func(e *e3, thorough bool) {
		if e.shard != 0 {
			return
		}
		rounds := 30
		if thorough {
			rounds = 300
		}
		for round := 0; round < rounds; round++ {
			e.at("concurrent requests, round %d", round)
			cfg := baseConfig()
			cfg.PauseTimeout = 0
			var store mqtt.Persistence
			if round%2 == 1 {
				store = newPlainStore()
			}
			c, conn, stop, err := onlineClient(cfg, store)
			if err != nil {
				e.violate("C08", "setup", "%v", err)
				return
			}
			var wg sync.WaitGroup
			run := func(f func()) {
				wg.Add(1)
				go func() { defer wg.Done(); f() }()
			}
			drain := func(ch <-chan error, err error) {
				if err != nil {
					return
				}
				timeout := time.After(100 * time.Millisecond) // patience, not a verdict
				for {
					select {
					case _, ok := <-ch:
						if !ok {
							return
						}
					case <-timeout:
						return
					}
				}
			}
			for i := 0; i < 2; i++ {
				run(func() { c.Publish(nil, []byte("zero"), "r/0") })
				run(func() { c.PublishRetained(nil, []byte("zero-r"), "r/0r") })
				run(func() { drain(c.PublishAtLeastOnce([]byte("one"), "r/1")) })
				run(func() { drain(c.PublishExactlyOnce([]byte("two"), "r/2")) })
				run(func() { c.Subscribe(nil, "s/1", "s/2") })
				run(func() { c.Unsubscribe(nil, "s/1") })
				run(func() { c.Ping(nil) })
				run(func() { c.Publish(nil, []byte("denied"), "") })
				run(func() {
					select {
					case <-c.Online():
					default:
					}
				})
				run(func() {
					select {
					case <-c.Offline():
					default:
					}
				})
			}
			// inbound traffic meanwhile
			conn.mu.Lock()
			conn.in = append(conn.in, encPublish(1, false, false, 7, "in/1", []byte("inbound-1"))...)
			conn.in = append(conn.in, encPublish(2, false, false, 8, "in/2", []byte("inbound-2"))...)
			conn.in = append(conn.in, encAck(tPUBREL, 8)...)
			conn.cond.Broadcast()
			conn.mu.Unlock()
			if round%3 == 2 {
				run(func() { c.Disconnect(nil) })
			}
			wg.Wait()
			stop()
			e.evals.Add(1)
		}
		e.distinct["client"] = true
		e.sample("%d rounds of 20 concurrent requests of every kind against one client, inbound traffic, Disconnect/Close", rounds)
	}

	// the FileSystem store on a real directory from several goroutines
	e3tests["race-fs"] = func(e *e3, thorough bool) {
		if e.shard != 0 {
			return
		}
		dir, err := os.MkdirTemp("", "verif-race-fs-")
		if err != nil {
			e.res.ToolErrs = append(e.res.ToolErrs, err.Error())
			return
		}
		defer os.RemoveAll(dir)
		fs := mqtt.FileSystem(dir + "/")
		rounds := 50
		for round := 0; round < rounds; round++ {
			e.at("concurrent store operations, round %d", round)
			var wg sync.WaitGroup
			for g := 0; g < 4; g++ {
				key := uint(0x08001)
				if g%2 == 1 {
					key = 0x18001
				}
				wg.Add(1)
				go func() {
					defer wg.Done()
					v := []byte(fmt.Sprintf("value-%d-%d", g, round))
					fs.Save(key, [][]byte{v[:3], v[3:]})
					fs.Load(key)
					fs.List()
					if g >= 2 {
						fs.Delete(key)
					}
				}()
			}
			wg.Wait()
			e.evals.Add(1)
		}
		e.distinct["fs"] = true
		e.sample("%d rounds of Save/Load/List/Delete from four goroutines on two keys of a real directory", rounds)
	}
}
