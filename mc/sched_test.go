package mc

// Controlled scheduler: exactly one goroutine of the execution is released
// at a time; everything else is parked at a gate, blocked in a real channel
// operation, or finished. The root goroutine of the synctest bubble drives.

import (
	"fmt"
	"runtime"
	"sync"
	"time"
)

const (
	kindSync = iota // instrumented gate in the library
	kindEnv         // call into the simulated environment
	kindApp         // actor in front of its next API call
)

type thread struct {
	name   string
	gen    int
	wake   chan struct{}
	parked bool
	kind   int
	site   string
	selN   int // >1: parked in front of a multi-clause select
	selPri int // answer
	env    *envReq
	done   bool
	hist   uint64 // rolling hash of gate sites passed
	run    int    // consecutive steps as the running thread
	actor  *actor
	free   bool // never parks (teardown helpers)
}

type sched struct {
	mu      sync.Mutex
	byG     map[uintptr]*thread
	threads []*thread
	root    uintptr
	open    bool // pass-through (teardown / drain)
	gen     int
	perSite map[string]int
	toolErr string
	drain   bool // goroutines appearing now belong to the previous generation
}

func (s *sched) newGen() int {
	if s.drain {
		return s.gen - 1
	}
	return s.gen
}

func newSched() *sched {
	return &sched{byG: map[uintptr]*thread{}, root: getg(), perSite: map[string]int{}}
}

func (s *sched) isRoot() bool { return getg() == s.root }

// cur returns the thread of the calling goroutine.
func (s *sched) cur() *thread {
	g := getg()
	s.mu.Lock()
	defer s.mu.Unlock()
	t := s.byG[g]
	if t == nil || t.done {
		// goroutine not announced (not started through an instrumented go
		// statement or spawn): name by arrival
		s.perSite["anon"]++
		t = &thread{name: fmt.Sprintf("anon#%d", s.perSite["anon"]), wake: make(chan struct{}), gen: s.newGen()}
		s.byG[g] = t
		s.threads = append(s.threads, t)
	}
	return t
}

func (s *sched) goStart(site string) {
	g := getg()
	s.mu.Lock()
	s.perSite[site]++
	t := &thread{name: fmt.Sprintf("%s#%d", site, s.perSite[site]), wake: make(chan struct{}), gen: s.newGen()}
	s.byG[g] = t
	s.threads = append(s.threads, t)
	s.mu.Unlock()
}

func (s *sched) goEnd() {
	g := getg()
	s.mu.Lock()
	if t := s.byG[g]; t != nil {
		t.done = true
		delete(s.byG, g)
	}
	s.mu.Unlock()
}

func (s *sched) spawn(name string, f func(t *thread)) *thread {
	t := &thread{name: name, wake: make(chan struct{}), gen: s.gen}
	s.mu.Lock()
	s.threads = append(s.threads, t)
	s.mu.Unlock()
	go func() {
		g := getg()
		s.mu.Lock()
		s.byG[g] = t
		s.mu.Unlock()
		defer func() {
			s.mu.Lock()
			t.done = true
			delete(s.byG, g)
			s.mu.Unlock()
		}()
		s.park(t, "start", kindApp)
		f(t)
	}()
	return t
}

func (s *sched) passThrough(t *thread) bool {
	return s.open || t.free || t.gen < s.gen
}

// spawnFree starts an uncontrolled helper goroutine.
func (s *sched) spawnFree(name string, f func()) { s.spawnFreeGen(name, s.gen, f) }

// spawnFreeGen is spawnFree for a helper that acts on behalf of process
// generation gen: a helper of a crashed process is as dead as the process.
func (s *sched) spawnFreeGen(name string, gen int, f func()) {
	t := &thread{name: name, wake: make(chan struct{}), gen: gen, free: true}
	s.mu.Lock()
	s.threads = append(s.threads, t)
	s.mu.Unlock()
	go func() {
		g := getg()
		s.mu.Lock()
		s.byG[g] = t
		s.mu.Unlock()
		defer func() {
			recover()
			s.mu.Lock()
			t.done = true
			delete(s.byG, g)
			s.mu.Unlock()
		}()
		f()
	}()
}

func mix(h uint64, s string) uint64 {
	for i := 0; i < len(s); i++ {
		h ^= uint64(s[i])
		h *= 1099511628211
	}
	h ^= 0xff
	h *= 1099511628211
	return h
}

// park blocks the calling goroutine until the scheduler releases it.
func (s *sched) park(t *thread, site string, kind int) {
	s.mu.Lock()
	if s.passThrough(t) {
		s.mu.Unlock()
		return
	}
	t.parked, t.site, t.kind = true, site, kind
	t.hist = mix(t.hist, site)
	s.mu.Unlock()
	<-t.wake
}

func (s *sched) release(t *thread) {
	s.mu.Lock()
	t.parked = false
	s.mu.Unlock()
	t.wake <- struct{}{}
}

// hooks
func (s *sched) Gate(site string) {
	if s.isRoot() {
		return
	}
	t := s.cur()
	t.selN = 0
	s.park(t, site, kindSync)
}

// LockWait is the hook behind verifLock: the mutex was taken. Under control
// the goroutine parks like at any gate and tries again when released. While
// the world is taken down it polls a little and then ends for good: a mutex
// that is never released must not keep the bubble from ending.
func (s *sched) LockWait(n int) {
	if s.isRoot() {
		runtime.Gosched()
		return
	}
	t := s.cur()
	s.mu.Lock()
	free := s.passThrough(t)
	s.mu.Unlock()
	if free {
		if n > 100 {
			runtime.Goexit()
		}
		time.Sleep(time.Millisecond)
		return
	}
	s.park(t, "lockwait", kindSync)
}

func (s *sched) GateSel(site string, n int) int {
	if s.isRoot() {
		return 0
	}
	t := s.cur()
	t.selN, t.selPri = n, 0
	s.park(t, site, kindSync)
	t.selN = 0
	if t.selPri < 0 || t.selPri >= n {
		return 0
	}
	return t.selPri
}
