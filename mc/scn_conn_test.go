package mc

import (
	"bytes"
	"fmt"
	"strings"
	"time"

	"github.com/pascaldekloe/mqtt"
)

// monitorConnect checks C18 on every connection.
func (w *World) monitorConnect() {
	tl, _ := w.wireTimeline()
	cfg := &w.scn.Config
	firstAccepted := map[int]int{} // per generation: log index of the first CONNACK that accepts
	cleanReq := map[int]bool{}
	for _, x := range tl {
		if x.p.Type == tCONNECT {
			cleanReq[x.conn.id] = x.p.Connect.CleanSession
		}
	}
	replied := map[int]bool{}
	for i, e := range w.log {
		if e.K == "bk-send" && !replied[e.C] {
			replied[e.C] = true
			if len(e.B) == 4 && e.B[0] == tCONNACK<<4 && e.B[1] == 2 && e.B[3] == 0 && (e.B[2] == 0 || e.B[2] == 1 && !cleanReq[e.C]) && w.clientReadFirst(e.C, 4) {
				if _, ok := firstAccepted[e.Gen]; !ok {
					firstAccepted[e.Gen] = i
				}
			}
		}
	}
	for _, c := range w.conns {
		var pk []wp
		for _, x := range tl {
			if x.conn == c {
				pk = append(pk, x)
			}
		}
		if len(pk) == 0 {
			continue
		}
		if pk[0].p.Type != tCONNECT {
			continue // monitorWire reports
		}
		cf := pk[0].p.Connect
		wantID := w.scn.ClientID
		if wantID == "" {
			wantID = "cid"
		}
		bad := ""
		switch {
		case cf.ClientID != wantID:
			bad = fmt.Sprintf("client identifier %q, want %q", cf.ClientID, wantID)
		case cf.KeepAlive != cfg.KeepAlive:
			bad = fmt.Sprintf("keep-alive %d, want %d", cf.KeepAlive, cfg.KeepAlive)
		case cf.HasWill != (cfg.Will.Message != nil):
			bad = "will flag"
		case cf.HasWill && (cf.WillTopic != cfg.Will.Topic || !bytes.Equal(cf.WillMessage, cfg.Will.Message) || cf.WillRetain != cfg.Will.Retain):
			bad = "will fields"
		case cf.HasUser != (cfg.UserName != "" || cfg.Password != nil) || cf.User != cfg.UserName:
			bad = "user name"
		case cf.HasPassword != (cfg.Password != nil) || !bytes.Equal(cf.Password, cfg.Password):
			bad = "password"
		}
		if cf.HasWill {
			wq := 0
			if cfg.Will.ExactlyOnce {
				wq = 2
			} else if cfg.Will.AtLeastOnce {
				wq = 1
			}
			if cf.WillQoS != wq {
				bad = fmt.Sprintf("will QoS %d, want %d", cf.WillQoS, wq)
			}
		}
		if bad != "" {
			w.Violate("C18", "connect-fields", "c%d: CONNECT does not reflect the Config: %s", c.id, bad)
		}
		// clean session only before the first accepted connection of this generation
		dialIdx := -1
		for j, e := range w.log {
			if e.K == "dial" && e.C == c.id {
				dialIdx = j
			}
		}
		fa, had := firstAccepted[c.gen]
		before := !had || dialIdx < fa
		if cf.CleanSession && !(cfg.CleanSession && before) {
			w.Violate("C18", "clean-session-on-reconnect", "c%d: CONNECT requests a clean session (configured %t) after a connection had been established", c.id, cfg.CleanSession)
		}
		if !cf.CleanSession && cfg.CleanSession && before && c.gen == 0 {
			w.Violate("C18", "clean-session-missing", "c%d: CleanSession configured but not requested on the first connect", c.id)
		}
		// the broker's reply on this connection
		var reply []byte
		replyIdx := -1
		for j, e := range w.log {
			if (e.K == "bk-send") && e.C == c.id && replyIdx < 0 {
				reply, replyIdx = e.B, j
			}
		}
		accepted := len(reply) >= 4 && reply[0] == tCONNACK<<4 && reply[1] == 2 && reply[3] == 0 && (reply[2] == 0 || reply[2] == 1 && !cf.CleanSession)
		// nothing else before the client read an accepting CONNACK
		readIdx := -1
		if accepted {
			got := 0
			for j, e := range w.log {
				if e.K == "read" && e.C == c.id && len(e.B) > 0 {
					got += len(e.B)
					if got >= 4 && readIdx < 0 {
						readIdx = j
					}
				}
			}
		}
		for _, x := range pk[1:] {
			if !accepted {
				w.Violate("C18", "write-without-connack", "c%d: %s written although the connection was never accepted (reply %x)", c.id, x.p, trunc(reply))
				break
			}
			if readIdx < 0 || x.start < readIdx {
				w.Violate("C18", "write-before-connack", "c%d: %s written before the CONNACK was read", c.id, x.p)
				break
			}
		}
		// a valid accepting CONNACK that arrived intact must be accepted: the
		// client may not close the connection as its next action
		if accepted && readIdx >= 0 {
			for _, e := range w.log[readIdx+1:] {
				if e.C != c.id && e.K != "crash" {
					continue
				}
				if e.K == "close" && strings.HasPrefix(e.T, "a:reader") {
					// closed by the read routine right after the handshake: was there a cause?
					cause := false
					for _, f := range w.log[dialIdx:] {
						if f.Step > e.Step {
							break
						}
						if f.K == "call" && (f.S == "close" || f.S == "disc") || f.K == "store" && f.R != "" || (f.C == c.id && (f.K == "cut" || (f.K == "write" || f.K == "read") && (f.R != "" || f.S == "lost" || f.S == "noresponse" || strings.HasSuffix(f.S, "then stall")))) {
							cause = true
						}
					}
					if !cause {
						w.Violate("C18", "accepted-connack-rejected", "c%d: the broker's accepting CONNACK %x (clean session requested: %t) arrived intact, yet the client closed the connection", c.id, reply, cf.CleanSession)
					}
				}
				break
			}
		}
		if !accepted && replyIdx >= 0 && w.quiet && !c.closed {
			w.Violate("C18", "refused-connection-left-open", "c%d: reply %x does not accept the connection, yet the client never closed it", c.id, trunc(reply))
		}
		// refusal codes surface as IsConnectionRefused
		// (provided the client got to read all four bytes of it)
		if len(reply) >= 4 && reply[0] == tCONNACK<<4 && reply[1] == 2 && reply[3] != 0 && w.clientReadFirst(c.id, 4) {
			found := false
			for _, d := range w.deliveries {
				if d.Err != nil && mqtt.IsConnectionRefused(d.Err) && strings.Contains(fmt.Sprintf("%d|%v", reply[3], d.Err), "") {
					found = true
				}
			}
			if !found && w.quiet {
				w.Violate("C18", "refusal-not-reported", "c%d: CONNACK return code %d was not reported as IsConnectionRefused by ReadSlices", c.id, reply[3])
			}
		}
		// resend (written by the read routine) precedes anything another goroutine writes
		otherSeen := ""
		for _, x := range pk[1:] {
			th := w.log[x.start].T
			isReader := strings.HasPrefix(th, "a:reader")
			if !isReader {
				otherSeen = x.p.String()
			} else if x.p.Type == tPUBLISH && otherSeen != "" {
				w.Violate("C18", "new-before-resend", "c%d: %s was written before the retransmission %s", c.id, otherSeen, x.p)
				break
			}
		}
	}
	// after a failed connect attempt, and until the read routine starts the next
	// one, non-persisted requests fail with ErrDown instead of waiting. An
	// attempt failed when ReadSlices dialled and returned an error without ever
	// getting to read beyond the CONNACK.
	{
		type span struct{ from, to int }
		var down []span
		rsCall := -1
		for i, e := range w.log {
			if e.K == "call" && e.S == "rs" {
				rsCall = i
				if n := len(down); n > 0 && down[n-1].to < 0 {
					down[n-1].to = i
				}
			}
			if e.K == "crash" {
				if n := len(down); n > 0 && down[n-1].to < 0 {
					down[n-1].to = i
				}
				rsCall = -1
			}
			if e.K == "ret" && e.S == "rs" && rsCall >= 0 && e.R != "nil" && !strings.HasPrefix(e.R, "BigMessage") && !strings.Contains(e.R, "ErrClosed") {
				lastDial, conn := -1, 0
				for j := rsCall; j < i; j++ {
					if w.log[j].K == "dial" {
						lastDial, conn = j, w.log[j].C
					}
				}
				if lastDial < 0 {
					continue
				}
				// the attempt failed when connect never got to signal Online
				// between the dial and this error (stepOnline logs the signal)
				failed := true
				for j := lastDial; j < i; j++ {
					if f := w.log[j]; f.K == "sig" && f.S == "online" {
						failed = false
					}
				}
				_ = conn
				if failed {
					down = append(down, span{i, -1})
				}
			}
		}
		// requests that were already waiting for the attempt learn about its
		// failure at their next 20 ms poll: when the read routine lets at least
		// two poll periods pass before it tries again, none of them is still
		// waiting by then
		for _, sp := range down {
			if sp.to < 0 || w.log[sp.to].At-w.log[sp.from].At < 40*time.Millisecond {
				continue
			}
			for j := 0; j < sp.from; j++ {
				c := w.log[j]
				if c.K != "call" || c.Gen != w.log[sp.from].Gen || c.T == "reader" || strings.HasPrefix(c.S, "pub1") || strings.HasPrefix(c.S, "pub2") || c.S == "rs" || c.S == "close" || c.S == "disc" || c.S == "online" || c.S == "offline" {
					continue
				}
				ret := len(w.log)
				for k := j + 1; k < len(w.log); k++ {
					if r := w.log[k]; r.K == "ret" && r.T == c.T && r.N == c.N && r.S == c.S && r.Gen == c.Gen {
						ret = k
						break
					}
				}
				if ret <= sp.to {
					continue
				}
				wrote := false
				for k := j; k < sp.to; k++ {
					if f := w.log[k]; f.K == "write" && f.T == "a:"+c.T {
						wrote = true
					}
				}
				if !wrote {
					w.Violate("C11", "waited-through-failed-attempt", "%s %s kept waiting although the connect attempt it waited for had failed %v earlier (step %d): with a broker that stays away it would never return", c.T, c.S, w.log[sp.to].At-w.log[sp.from].At, w.log[sp.from].Step)
					w.Violate("C18", "waited-through-failed-attempt", "%s %s was waiting for the connect attempt that failed at step %d; %v later, when the next attempt began, it still had not returned ErrDown", c.T, c.S, w.log[sp.from].Step, w.log[sp.to].At-w.log[sp.from].At)
				}
			}
		}
		for _, sp := range down {
			to := sp.to
			if to < 0 {
				to = len(w.log)
			}
			for j := sp.from; j < to; j++ {
				c := w.log[j]
				if c.K != "call" || c.T == "reader" || strings.HasPrefix(c.S, "pub1") || strings.HasPrefix(c.S, "pub2") || c.S == "rs" || c.S == "close" || c.S == "disc" || c.S == "online" || c.S == "offline" {
					continue
				}
				// its return
				res := ""
				for k := j + 1; k < len(w.log); k++ {
					if r := w.log[k]; r.K == "ret" && r.T == c.T && r.N == c.N && r.S == c.S && r.Gen == c.Gen {
						res = r.R
						break
					}
				}
				if res == "" || strings.Contains(res, "ErrDown") || strings.Contains(res, "ErrClosed") || strings.Contains(res, "ErrMax") || strings.Contains(res, "ErrCanceled") || strings.Contains(res, "Deny") {
					if res != "" {
						continue
					}
					if w.quiet && !w.horizonHit {
						w.Violate("C18", "request-waits-after-failed-attempt", "%s %s issued at step %d, after the connect attempt had failed at step %d, never returned", c.T, c.S, c.Step, w.log[sp.from].Step)
					}
					continue
				}
				w.Violate("C18", "no-errdown-after-failed-attempt", "%s %s issued at step %d, after the connect attempt had failed at step %d and before the next one, returned %s instead of ErrDown", c.T, c.S, c.Step, w.log[sp.from].Step, res)
			}
		}
	}
	// ErrDown needs a failed connect attempt
	failSeen := false
	for _, e := range w.log {
		switch e.K {
		case "dial":
			if e.R != "" {
				failSeen = true
			}
		case "bk-send":
			if len(e.B) >= 2 && e.B[0] == tCONNACK<<4 && !(len(e.B) == 4 && e.B[3] == 0) {
				failSeen = true
			}
		case "cut", "bk-hostile", "bk-violation":
			failSeen = true
		case "write", "read":
			if e.R != "" || e.S == "lost" || e.S == "noresponse" || strings.HasPrefix(e.S, "connack=") {
				failSeen = true
			}
		case "store":
			if e.R != "" {
				failSeen = true
			}
		case "ret":
			if e.S != "rs" && strings.Contains(e.R, "ErrDown") && !failSeen {
				w.Violate("C18", "errdown-without-failed-attempt", "%s %s returned ErrDown although no connect attempt had failed", e.T, e.S)
			}
		}
	}
}

// stepOnline is a StepCheck that puts the Online signal's transitions into the
// event log, for rules that need to know whether a connect attempt completed.
func stepOnline(w *World) {
	if w.client == nil {
		return
	}
	on := strings.Contains(mqtt.VerifDump(w.client), "on=released")
	if on != w.wasOnline {
		w.wasOnline = on
		if on {
			w.ev(Event{K: "sig", S: "online"})
		} else {
			w.ev(Event{K: "sig", S: "not-online"})
		}
	}
}

// clientReadFirst reports whether the client received the first n bytes of
// connection id without a read error in between.
func (w *World) clientReadFirst(id, n int) bool {
	got := 0
	for _, e := range w.log {
		if e.K == "read" && e.C == id {
			if e.R != "" {
				return false
			}
			got += len(e.B)
			if got >= n {
				return true
			}
		}
	}
	return false
}

// monitorWindow checks C17.
func (w *World) monitorWindow() {
	lim := [3]int{0, w.scn.Config.AtLeastOnceMax, w.scn.Config.ExactlyOnceMax}
	for l := 1; l <= 2; l++ {
		if lim[l] < 0 || lim[l] > 0x4000 {
			lim[l] = 0x4000
		}
	}
	inflight := [3]map[int]bool{nil, {}, {}}
	for _, e := range w.log {
		if e.K == "crash" {
			// counts continue from the store content
			continue
		}
		if e.K == "store" && e.R == "" && e.N >= 0x8000 && e.N < 1<<16 {
			lvl := 1
			if e.N >= 0xc000 {
				lvl = 2
			}
			switch e.S {
			case "save":
				inflight[lvl][e.N] = true
				if len(inflight[lvl]) > lim[lvl] {
					w.Violate("C17", "window-exceeded", "level %d: %d transfers in flight with a maximum of %d", lvl, len(inflight[lvl]), lim[lvl])
				}
			case "delete":
				delete(inflight[lvl], e.N)
			}
		}
		if e.K == "ret" && strings.HasPrefix(e.S, "pub") && len(e.S) >= 4 && e.S[3] != '0' {
			lvl := int(e.S[3] - '0')
			if strings.Contains(e.R, "ErrMax") && len(inflight[lvl]) < lim[lvl] {
				// in flight may have dropped between the refusal and the return
				w.noteErrMaxBelow(e, lvl, len(inflight[lvl]), lim[lvl])
			}
			if e.R == "nil" && lim[lvl] == 0 {
				w.Violate("C17", "disabled-level-accepted", "%s accepted although the maximum of level %d is zero", e.S, lvl)
			}
		}
	}
	// identifiers on the wire: non-zero and in the space of their kind
	tl, _ := w.wireTimeline()
	for _, x := range tl {
		var space, mask uint16
		switch {
		case x.p.Type == tPUBLISH && x.p.QoS == 1:
			space, mask = 0x8000, 0xc000
		case x.p.Type == tPUBLISH && x.p.QoS == 2, x.p.Type == tPUBREL:
			space, mask = 0xc000, 0xc000
		case x.p.Type == tSUBSCRIBE:
			space, mask = 0x6000, 0xe000
		case x.p.Type == tUNSUBSCRIBE:
			space, mask = 0x4000, 0xe000
		default:
			continue
		}
		if x.p.ID == 0 || x.p.ID&mask != space {
			w.Violate("C17", "identifier-out-of-space", "c%d: %s carries an identifier outside %#04x/%#04x", x.conn.id, x.p, space, mask)
		}
	}
}

func (w *World) noteErrMaxBelow(e Event, lvl, n, lim int) {
	// the count is taken at the return; a concurrent acknowledgement between the
	// refusal and the return may lower it, so only a level that was never full
	// since the call started counts
	from := -1
	for i, c := range w.log {
		if c.K == "call" && c.T == e.T && c.N == e.N && c.Gen == e.Gen && c.S == e.S {
			from = i
		}
	}
	if from < 0 {
		return
	}
	// a transfer occupies its slot from the Save until its exchange closes (the
	// record disappears a few steps earlier); adopted transfers have no exchange
	// of their own, so their slot is counted until the Delete plus one step of slack
	cnt := map[int]bool{}
	closing := 0
	full := false
	for i, c := range w.log {
		if c.K == "store" && c.R == "" && c.N >= 0x8000 && c.N < 1<<16 && (c.N >= 0xc000) == (lvl == 2) {
			if c.S == "save" {
				if pkt, _, ok := refDecodeValue(c.B); ok && len(pkt) > 0 && pkt[0]>>4 == tPUBLISH {
					cnt[c.N] = true
				}
			} else if c.S == "delete" && cnt[c.N] {
				delete(cnt, c.N)
				closing++
			}
		}
		if c.K == "xclosed" || c.K == "crash" {
			closing = 0
		}
		if i >= from && len(cnt)+min(closing, 1) >= lim {
			full = true
		}
		if c.Step > e.Step {
			break
		}
	}
	if !full {
		w.Violate("C17", "errmax-below-limit", "%s %s refused with ErrMax while only %d of %d transfers were in flight", e.T, e.S, n, lim)
	}
}

func connackDomain(full bool) [][]byte {
	var out [][]byte
	add := func(b ...byte) { out = append(out, b) }
	if full {
		for fl := 0; fl < 256; fl++ {
			for rc := 0; rc < 256; rc++ {
				if fl == 0 && rc == 0 {
					continue
				}
				add(0x20, 2, byte(fl), byte(rc))
			}
		}
	} else {
		for fl := 0; fl < 256; fl++ {
			for _, rc := range []int{0, 1, 5, 6, 255} {
				if fl == 0 && rc == 0 {
					continue
				}
				add(0x20, 2, byte(fl), byte(rc))
			}
		}
		for rc := 1; rc < 256; rc++ {
			add(0x20, 2, 1, byte(rc))
			add(0x20, 2, 0, byte(rc))
		}
	}
	// malformed replies
	add(0x20, 3, 0, 0, 0)
	add(0x20, 1, 0)
	add(0x20, 0)
	add(0x21, 2, 0, 0)
	add(0x30, 2, 0, 0)
	add(0x20, 2, 0)
	add(0x20)
	add(0x00, 0)
	add(0xd0, 0)
	add(0x20, 0x82, 0, 0)
	return out
}

func init() {
	mkConnect := func(clean bool, full bool) func() *Scenario {
		return func() *Scenario {
			cfg := baseConfig()
			cfg.CleanSession = clean
			cfg.KeepAlive = 300
			cfg.UserName = "user"
			cfg.Password = []byte("pw")
			cfg.Will.Topic = "will/t"
			cfg.Will.Message = []byte("gone")
			cfg.Will.AtLeastOnce = true
			cfg.Will.Retain = true
			return &Scenario{
				Config: cfg,
				Actors: []ActorSpec{
					{Name: "reader", Reader: &ReaderSpec{Backoff: true}},
					{Name: "A", Ops: []Op{{Kind: "pub1", Topic: "c/1", Msg: []byte("P1-aaaa")}, {Kind: "pub2", Topic: "c/2", Msg: []byte("P2-bbbb")}, {Kind: "pub0", Topic: "c/0", Msg: []byte("P0-cccc")}}},
					{Name: "B", Ops: []Op{{Kind: "sub", Filters: []string{"c/s"}}, {Kind: "ping"}}},
				},
				Faults: Faults{DialErr: true, DialBlock: true, WriteCuts: cutsAll, WriteErr: true, WriteTimeout: true, NoResponse: true, Cut: true,
					ReadCuts: cutsEvery, ReadStall: true, Connacks: connackDomain(full)},
				Horizon:   2500,
				StepCheck: stepOnline,
				Final: func(w *World) {
					w.monitorWire()
					w.monitorConnect()
					if w.horizonHit {
						w.Violate("C18", "no-stabilisation", "execution did not become quiet within %d steps", w.step)
					}
					w.monitorRequests()
					w.monitorOrder()
					// every connect attempt has an outcome: requests do not wait forever
					w.monitorProgressAs("C18")
				},
			}
		}
	}
	register("connect", mkConnect(false, false))
	register("connectclean", mkConnect(true, false))
	register("connectfull", mkConnect(true, true))
	// sequences of attempts: established, lost, failed, retried — with few ways
	// to fail, so that three faults in a row stay affordable
	register("connectretry", func() *Scenario {
		s := mkConnect(true, false)()
		s.Faults = Faults{DialErr: true, DialBlock: true, Cut: true, NoResponse: true, Connacks: [][]byte{{0x20, 2, 0, 3}, {0x20, 2, 1, 0}}}
		// long enough between attempts for waiting requests to notice a failure
		s.Config.ReconnectWaitMin, s.Config.ReconnectWaitMax = 60*time.Millisecond, 240*time.Millisecond
		return s
	})

	mkWindow := func(m1, m2 int, preset uint) func() *Scenario {
		return func() *Scenario {
			cfg := baseConfig()
			cfg.AtLeastOnceMax, cfg.ExactlyOnceMax = m1, m2
			return &Scenario{
				Config:    cfg,
				AdoptProp: "C17",
				Preset:    preset != 0,
				PresetSeq: [2]uint{preset, preset},
				Actors: []ActorSpec{
					{Name: "reader", Reader: &ReaderSpec{Backoff: true}},
					{Name: "A", Ops: []Op{{Kind: "pub1", Topic: "w/1", Msg: []byte("W1-aaaa")}, {Kind: "pub1", Topic: "w/2", Msg: []byte("W2-aaaa")}, {Kind: "pub1", Topic: "w/3", Msg: []byte("W3-aaaa")}, {Kind: "pub1", Topic: "w/4", Msg: []byte("W4-aaaa")}}},
					{Name: "B", Ops: []Op{{Kind: "pub2", Topic: "v/1", Msg: []byte("V1-bbbb")}, {Kind: "pub2", Topic: "v/2", Msg: []byte("V2-bbbb")}, {Kind: "pub2", Topic: "v/3", Msg: []byte("V3-bbbb")}}},
				},
				Gens:    [][]ActorSpec{{{Name: "reader", Reader: &ReaderSpec{Backoff: true}}, {Name: "A", Ops: []Op{{Kind: "pub1", Topic: "w/5", Msg: []byte("W5-aaaa")}, {Kind: "pub2", Topic: "v/4", Msg: []byte("V4-bbbb")}}}}},
				Faults:  Faults{Cut: true, NoResponse: true, Connacks: [][]byte{{0x20, 2, 0, 3}}, Store: map[string]bool{"save": true, "delete": true}, Crash: true},
				Horizon: 2500,
				Final: func(w *World) {
					w.monitorWire()
					w.monitorWindow()
					w.monitorRestart()
					w.monitorOrder()
					w.monitorRequests()
				},
			}
		}
	}
	// two publishers of the same level compete for the last free slot
	register("window21x", func() *Scenario {
		s := mkWindow(2, 1, 0)()
		s.Actors = []ActorSpec{
			{Name: "reader", Reader: &ReaderSpec{Backoff: true}},
			{Name: "A", Ops: []Op{{Kind: "pub1", Topic: "w/1", Msg: []byte("W1-aaaa")}, {Kind: "pub1", Topic: "w/2", Msg: []byte("W2-aaaa")}}},
			{Name: "C", Ops: []Op{{Kind: "pub1", Topic: "w/3", Msg: []byte("W3-cccc")}, {Kind: "pub1", Topic: "w/4", Msg: []byte("W4-cccc")}}},
		}
		s.Gens = nil
		s.Faults = Faults{NoResponse: true}
		return s
	})
	register("window21", mkWindow(2, 1, 0))
	register("window21wrap", mkWindow(2, 1, 0x3fff))
	register("window10", mkWindow(1, 0, 0x7ffe))
	register("window3neg", mkWindow(3, -1, 0x3fff))
}
