package mc

import (
	"fmt"
	"regexp"
	"strings"
)

// monitorDamage checks C16 after a crash whose snapshot was damaged.
func (w *World) monitorDamage() {
	if len(w.damaged) == 0 {
		return
	}
	if len(w.panics) > 0 {
		w.Violate("C16", "panic", "panic after damage: %v", w.panics)
	}
	var warns []string
	for _, e := range w.log {
		if e.K == "adopt-warn" {
			warns = append(warns, e.S)
		}
	}
	all := strings.Join(warns, " | ")
	for _, d := range w.damaged {
		label := d.label
		switch d.kind {
		case "flip-packet", "flip-seq", "flip-sum", "trunc11", "trunc-1":
			// the record is unusable: it must be named in a warning
			if !strings.Contains(all, fmt.Sprintf("%#x", d.key)) {
				w.Violate("C16", "unusable-record-not-warned#"+keyClass(d.key), "%s: no warning names record %#x (warnings: %s)", label, d.key, all)
			}
		}
	}
	if w.horizonHit {
		w.Violate("C16", "no-stabilisation#"+w.damageClass(), "after %s the execution did not become quiet within %d steps", w.damageLabels(), w.step)
		return
	}
	if !w.quiet || w.client == nil {
		return
	}
	// the adopted client serves: online, reading from a live connection
	before := len(w.viol)
	w.monitorProgress()
	for i := before; i < len(w.viol); i++ {
		if w.viol[i].Prop == "C10" {
			w.viol[i].Prop = "C16"
			w.viol[i].Sig = "cannot-connect#" + w.damageClass()
			w.viol[i].Detail = "after " + w.damageLabels() + ": " + w.viol[i].Detail
		}
	}
	// new publishes of the current generation complete
	for _, a := range w.actors {
		if a.gen != w.gen {
			continue
		}
		for i := range a.results {
			r := &a.results[i]
			if r.X == nil || r.Err != nil {
				continue
			}
			op := &a.spec.Ops[r.Idx]
			clash := false
			for _, e := range w.log {
				if e.K == "bk-id-clash" && e.S == op.Topic {
					clash = true // the record that told the client about this identifier was destroyed
				}
			}
			if clash {
				continue
			}
			if w.forwards(op) == 0 {
				w.Violate("C16", "new-publish-never-forwarded", "after %s: %s op %d (%s) accepted by the adopted client never reached the broker", w.damageLabels(), a.spec.Name, r.Idx, op.Kind)
			} else if !r.X.closed {
				w.Violate("C16", "new-publish-never-completed", "after %s: %s op %d (%s) never completed", w.damageLabels(), a.spec.Name, r.Idx, op.Kind)
			}
		}
	}
	// inbound traffic is still received
	if w.bk.nextIn == len(w.scn.Inbound) {
		for _, sess := range w.bk.sessions {
			for _, m := range sess.out {
				w.Violate("C16", "cannot-receive#"+w.damageClass(), "after %s: inbound message %#04x (QoS %d) is still unacknowledged at quiescence (state %d)", w.damageLabels(), m.id, m.qos, m.state)
			}
		}
	} else {
		w.Violate("C16", "cannot-receive#"+w.damageClass(), "after %s: the broker could not deliver its scripted messages (%d of %d sent)", w.damageLabels(), w.bk.nextIn, len(w.scn.Inbound))
	}
}

var hexKey = regexp.MustCompile(`0x[0-9a-f]+`)

// monitorDamageLater: damage is dealt with once. What the adopted client
// saved afterwards is an intact history again, so an adoption that follows a
// later stop without damage may warn about the old leftovers as often as it
// likes, but it must not drop or delete a record written since the damage.
func (w *World) monitorDamageLater() {
	lastDamage := -1
	for _, e := range w.log {
		if e.K == "damage" {
			lastDamage = e.Gen
		}
	}
	if lastDamage < 0 {
		return
	}
	savedIn := map[int]int{} // key: generation of the latest record
	for _, e := range w.log {
		switch {
		case e.K == "store" && e.S == "save" && e.R == "":
			savedIn[e.N] = e.Gen
		case e.K == "store" && e.S == "delete" && e.R == "":
			delete(savedIn, e.N)
		case e.K == "adopt-warn" && e.Gen > lastDamage+1:
			var keys []int
			for _, h := range hexKey.FindAllString(e.S, -1) {
				var k int
				fmt.Sscanf(h, "0x%x", &k)
				keys = append(keys, k)
			}
			var gone []int
			switch {
			case strings.Contains(e.S, "dropped") && len(keys) >= 2:
				a, b := keys[0], keys[1]
				if b < a || b-a > 64 {
					gone = []int{a, b}
				} else {
					for k := a; k <= b; k++ {
						gone = append(gone, k)
					}
				}
			case strings.Contains(e.S, "deleted") && len(keys) >= 1:
				gone = keys[len(keys)-1:]
			}
			for _, k := range gone {
				if g, ok := savedIn[k]; ok && g > lastDamage {
					w.Violate("C16", "intact-record-abandoned-later", "generation %d adopted after a stop without damage, yet gave up record %#x, which generation %d wrote after the damage (%s) had been dealt with: %s", e.Gen, k, g, w.damageLabels(), e.S)
				}
			}
		}
	}
}

// monitorFSProgress: after stops anywhere inside the FileSystem store's
// operations the adopted client gets online, completes what it accepted and
// still receives.
func (w *World) monitorFSProgress() {
	if len(w.crashSnaps) == 0 {
		return
	}
	if len(w.panics) > 0 {
		w.Violate("C16", "panic", "panic after a stop inside the store: %v", w.panics)
	}
	if w.horizonHit {
		w.Violate("C16", "no-stabilisation#interrupted-save", "after a stop at step %d the execution did not become quiet within %d steps", w.crashSnaps[0].step, w.step)
		return
	}
	if !w.quiet || w.client == nil {
		return
	}
	before := len(w.viol)
	w.monitorProgress()
	for i := before; i < len(w.viol); i++ {
		if w.viol[i].Prop == "C10" {
			w.viol[i].Prop, w.viol[i].Sig = "C16", "cannot-connect#interrupted-save"
		}
	}
	for _, a := range w.actors {
		if a.gen != w.gen {
			continue
		}
		for i := range a.results {
			r := &a.results[i]
			if r.X == nil || r.Err != nil {
				continue
			}
			op := &a.spec.Ops[r.Idx]
			if w.forwards(op) == 0 || !r.X.closed {
				w.Violate("C16", "new-publish-never-completed", "after a stop inside the store: %s op %d (%s) accepted by the adopted client did not complete", a.spec.Name, r.Idx, op.Kind)
			}
		}
	}
}

func keyClass(k uint) string {
	switch {
	case k == 0:
		return "clientid"
	case k&(1<<16) != 0:
		return "marker"
	}
	return "outbound"
}

// damageClass names the kind of record that was damaged; a damaged client
// identifier dominates (it decides the outcome whatever else was damaged).
func (w *World) damageClass() string {
	var s []string
	for _, d := range w.damaged {
		if keyClass(d.key) == "clientid" {
			return "clientid"
		}
		s = append(s, keyClass(d.key))
	}
	return strings.Join(s, "+")
}

func (w *World) damageLabels() string {
	var s []string
	for _, d := range w.damaged {
		s = append(s, d.label)
	}
	return strings.Join(s, "+")
}

func init() {
	mk := func(n int) func() *Scenario {
		return func() *Scenario {
			rd := ActorSpec{Name: "reader", Reader: &ReaderSpec{Backoff: true}}
			return &Scenario{
				Config: baseConfig(),
				Actors: []ActorSpec{rd, {Name: "A", Ops: []Op{
					{Kind: "pub1", Topic: "d/1", Msg: []byte("D1-aaaa")},
					{Kind: "pub2", Topic: "d/2", Msg: []byte("D2-bbbb")},
					{Kind: "pub2", Topic: "d/3", Msg: []byte("D3-cccc")},
					{Kind: "pub1", Topic: "d/4", Msg: []byte("D4-dddd")},
				}}},
				Gens: [][]ActorSpec{{rd, {Name: "A", Ops: []Op{
					{Kind: "pub2", Topic: "d/5", Msg: []byte("D5-eeee")},
					{Kind: "pub1", Topic: "d/6", Msg: []byte("D6-ffff")},
				}}}},
				Inbound: []InMsg{{QoS: 2, ID: 5, Topic: "in/5", Body: []byte("inbound-q2")}, {QoS: 1, ID: 6, Topic: "in/6", Body: []byte("inbound-q1")}, {QoS: 2, ID: 5, Topic: "in/7", Body: []byte("inbound-q2-again")}},
				InjectOK: func(w *World) bool {
					c := w.liveConn()
					return c != nil && c.bk.sess != nil && c.bk.sess.idFree(w.scn.Inbound[w.bk.nextIn].ID)
				},
				// the first generation's acknowledgements are withheld for some packets, so that records pile up
				Mute: func(p *Packet) bool {
					return false
				},
				Faults:  Faults{Crash: true, Damage: n},
				Horizon: 1500,
				Final: func(w *World) {
					w.monitorWire()
					w.monitorDamage()
					w.monitorOrder()
				},
			}
		}
	}
	register("damage1", mk(1))
	register("damage2", mk(2))
	// six transfers of one kind accepted while never connected, then pairs of
	// damages: holes with one, two, … intact records in between
	mkBulk := func(kind string) func() *Scenario {
		return func() *Scenario {
			cfg := baseConfig()
			cfg.AtLeastOnceMax, cfg.ExactlyOnceMax = 8, 8
			rd := ActorSpec{Name: "reader", Reader: &ReaderSpec{Backoff: true}}
			var ops []Op
			for i := 0; i < 6; i++ {
				ops = append(ops, Op{Kind: kind, Topic: fmt.Sprintf("b/%d", i), Msg: []byte(fmt.Sprintf("B%d-bulk", i))})
			}
			return &Scenario{
				Config: cfg,
				Actors: []ActorSpec{{Name: "A", Ops: ops}},
				Gens:   [][]ActorSpec{{rd, {Name: "A", Ops: []Op{{Kind: kind, Topic: "b/new", Msg: []byte("Bnew-bulk")}}}}},
				Faults: Faults{Crash: true, Damage: 2, Allow: func(w *World, k string) bool {
					// only once everything was accepted
					return k != "crash" || len(w.records()) >= 7
				}},
				Horizon: 1500,
				Final: func(w *World) {
					w.monitorWire()
					w.monitorDamage()
				},
			}
		}
	}
	// exactly-once transfers at both stages: PUBRELs awaiting PUBCOMP followed by
	// PUBLISHes awaiting PUBREC (the first generation's broker withholds those)
	register("damagerel", func() *Scenario {
		cfg := baseConfig()
		cfg.ExactlyOnceMax = 6
		rd := ActorSpec{Name: "reader", Reader: &ReaderSpec{Backoff: true}}
		var ops []Op
		for i := 0; i < 4; i++ {
			ops = append(ops, Op{Kind: "pub2", Topic: fmt.Sprintf("r/%d", i), Msg: []byte(fmt.Sprintf("R%d-rel", i))})
		}
		var w0 *World
		return &Scenario{
			Config: cfg,
			Init:   func(w *World) { w0 = w },
			Actors: []ActorSpec{rd, {Name: "A", Ops: ops}},
			Gens:   [][]ActorSpec{{rd, {Name: "A", Ops: []Op{{Kind: "pub2", Topic: "r/new", Msg: []byte("Rnew-rel")}}}}},
			Mute: func(p *Packet) bool {
				if w0 == nil || w0.gen != 0 {
					return false
				}
				return p.Type == tPUBREL || p.Type == tPUBLISH && (p.Topic == "r/2" || p.Topic == "r/3")
			},
			Faults: Faults{Crash: true, Damage: 1, Allow: func(w *World, k string) bool {
				return k != "crash" || len(w.records()) >= 5
			}},
			Horizon: 1500,
			Final: func(w *World) {
				w.monitorWire()
				w.monitorDamage()
			},
		}
	})
	// damage, then a second stop without: three PUBRELs and two PUBLISHes in
	// store, so that one damaged PUBREL leaves two abandoned ones behind with
	// storage sequence numbers above those of the records that are kept
	register("damagerel2", func() *Scenario {
		cfg := baseConfig()
		cfg.ExactlyOnceMax = 8
		rd := ActorSpec{Name: "reader", Reader: &ReaderSpec{Backoff: true}}
		var ops []Op
		for i := 0; i < 5; i++ {
			ops = append(ops, Op{Kind: "pub2", Topic: fmt.Sprintf("r/%d", i), Msg: []byte(fmt.Sprintf("R%d-rel", i))})
		}
		var w0 *World
		return &Scenario{
			Config: cfg,
			Init:   func(w *World) { w0 = w },
			Actors: []ActorSpec{rd, {Name: "A", Ops: ops}},
			Gens: [][]ActorSpec{
				{rd, {Name: "A", Ops: []Op{{Kind: "pub2", Topic: "r/new", Msg: []byte("Rnew-rel")}}}},
				{rd, {Name: "A", Ops: []Op{{Kind: "pub2", Topic: "r/last", Msg: []byte("Rlast-rel")}}}},
			},
			Mute: func(p *Packet) bool {
				if w0 == nil || w0.gen != 0 {
					return false
				}
				return p.Type == tPUBREL || p.Type == tPUBLISH && (p.Topic == "r/3" || p.Topic == "r/4")
			},
			Faults: Faults{Crash: true, Damage: 1, DamageOnce: true, Allow: func(w *World, k string) bool {
				if k != "crash" {
					return true
				}
				if w.gen == 0 {
					// once the three PUBRELs are in store next to the two PUBLISHes
					saves := 0
					for _, e := range w.log {
						if e.K == "store" && e.S == "save" && e.R == "" && e.N >= 0xc000 {
							saves++
						}
					}
					return saves >= 8
				}
				return true
			}},
			Horizon: 2500,
			Final: func(w *World) {
				w.monitorWire()
				w.monitorDamage()
				w.monitorDamageLater()
			},
		}
	})
	// a tight window refilled after the damage was dealt with: what the first
	// adoption abandoned (and left in store) must not count at the second
	register("damagefill", func() *Scenario {
		cfg := baseConfig()
		cfg.AtLeastOnceMax, cfg.ExactlyOnceMax = 3, 3
		rd := ActorSpec{Name: "reader", Reader: &ReaderSpec{Backoff: true}}
		var w0 *World
		return &Scenario{
			Config:    cfg,
			AdoptProp: "C16",
			Init:      func(w *World) { w0 = w },
			// never connected: three transfers of each level accepted and stored
			Actors: []ActorSpec{{Name: "A", Ops: []Op{
				{Kind: "pub1", Topic: "f/1", Msg: []byte("F1-fill")}, {Kind: "pub1", Topic: "f/2", Msg: []byte("F2-fill")}, {Kind: "pub1", Topic: "f/3", Msg: []byte("F3-fill")},
				{Kind: "pub2", Topic: "g/1", Msg: []byte("G1-fill")}, {Kind: "pub2", Topic: "g/2", Msg: []byte("G2-fill")}, {Kind: "pub2", Topic: "g/3", Msg: []byte("G3-fill")},
			}}},
			Gens: [][]ActorSpec{
				// the second life refills both windows (as far as the damage made room); nothing is acknowledged
				{rd, {Name: "A", Ops: []Op{
					{Kind: "pub1", Topic: "f/4", Msg: []byte("F4-fill")}, {Kind: "pub1", Topic: "f/5", Msg: []byte("F5-fill")},
					{Kind: "pub2", Topic: "g/4", Msg: []byte("G4-fill")}, {Kind: "pub2", Topic: "g/5", Msg: []byte("G5-fill")},
				}}},
				{rd, {Name: "A", Ops: []Op{{Kind: "pub1", Topic: "f/6", Msg: []byte("F6-fill")}}}},
			},
			Mute: func(p *Packet) bool { return w0 != nil && w0.gen == 1 && p.Type == tPUBLISH },
			Faults: Faults{Crash: true, Damage: 1, DamageOnce: true, Allow: func(w *World, k string) bool {
				return k != "crash" || w.gen > 0 || len(w.records()) >= 7
			}},
			Horizon: 900,
			Final: func(w *World) {
				w.monitorWire()
				if w.gen == 1 {
					return // nothing completes while the second life's publishes are withheld
				}
				w.monitorDamage()
				w.monitorDamageLater()
			},
		}
	})
	// the FileSystem store under the scheduler: a stop can fall between any two
	// primitives of a Save or Delete, leaving spool files behind
	register("damagefs", func() *Scenario {
		s := mk(0)()
		s.FSStore = true
		s.Faults = Faults{Crash: true}
		// the second generation's values are shorter than what an interrupted Save left behind
		s.Gens = [][]ActorSpec{{{Name: "reader", Reader: &ReaderSpec{Backoff: true}}, {Name: "A", Ops: []Op{
			{Kind: "pub2", Topic: "e", Msg: []byte("D5ee")},
			{Kind: "pub1", Topic: "f", Msg: []byte("D6ff")},
		}}}}
		s.Final = func(w *World) {
			w.monitorWire()
			w.monitorRestart()
			w.monitorFSProgress()
		}
		s.AdoptProp = "C16"
		return s
	})
	// every single damage of damage1 on the FileSystem store: what AdoptSession
	// sees goes through the store's own List and Load
	register("damagefs1", func() *Scenario {
		s := mk(1)()
		s.FSStore = true
		s.AdoptProp = "C16"
		return s
	})
	register("damagebulk1", mkBulk("pub1"))
	register("damagebulk2", mkBulk("pub2"))
}
