package mc

import (
	"fmt"
	"sort"
	"strings"

	"github.com/pascaldekloe/mqtt"
)

type linOp struct {
	actor      string
	idx        int
	kind       string
	key        uint
	val        string
	res        string
	start, end int
}

// monitorFSLinearizable checks the concurrent part of C19 by brute force
// against a map.
func (w *World) monitorFSLinearizable() {
	var ops []*linOp
	open := map[string]*linOp{}
	for i, e := range w.log {
		if !strings.HasPrefix(e.S, "fs-") {
			continue
		}
		k := fmt.Sprintf("%s/%d", e.T, e.N)
		switch e.K {
		case "call":
			var spec *Op
			for _, a := range w.actors {
				if a.spec.Name == e.T {
					spec = &a.spec.Ops[e.N]
				}
			}
			o := &linOp{actor: e.T, idx: e.N, kind: e.S, key: spec.Key, val: string(spec.Msg), start: i, end: 1 << 30}
			open[k] = o
			ops = append(ops, o)
		case "ret":
			if o := open[k]; o != nil {
				o.end, o.res = i, e.R
			}
		}
	}
	for _, o := range ops {
		if o.end == 1<<30 {
			w.Violate("C19", "fs-call-never-returns", "%s %s(%#x) did not return", o.actor, o.kind, o.key)
			return
		}
		if o.kind != "fs-load" && o.kind != "fs-list" && o.res != "nil" {
			w.Violate("C19", "fs-op-failed", "%s %s(%#x) returned %s without any fault", o.actor, o.kind, o.key, o.res)
			return
		}
	}
	done := make([]bool, len(ops))
	var search func(state map[uint]string, n int) bool
	search = func(state map[uint]string, n int) bool {
		if n == len(ops) {
			return true
		}
		for i, o := range ops {
			if done[i] {
				continue
			}
			// o may go next only if no pending op finished before o started
			ok := true
			for j, p := range ops {
				if !done[j] && j != i && p.end < o.start {
					ok = false
				}
			}
			if !ok {
				continue
			}
			next := state
			switch o.kind {
			case "fs-save":
				next = copyState(state)
				next[o.key] = o.val
			case "fs-delete":
				next = copyState(state)
				delete(next, o.key)
			case "fs-load":
				want := "absent"
				if v, ok := state[o.key]; ok {
					want = fmt.Sprintf("%q", v)
				}
				if o.res != want {
					continue
				}
			case "fs-list":
				var keys []uint
				for k := range state {
					keys = append(keys, k)
				}
				sort.Slice(keys, func(i, j int) bool { return keys[i] < keys[j] })
				if o.res != fmt.Sprintf("%x", keys) {
					continue
				}
			}
			done[i] = true
			if search(next, n+1) {
				return true
			}
			done[i] = false
		}
		return false
	}
	if !search(map[uint]string{}, 0) {
		var h []string
		for _, o := range ops {
			h = append(h, fmt.Sprintf("%s:%s(%#x)[%d,%d]=%s", o.actor, o.kind, o.key, o.start, o.end, o.res))
		}
		w.Violate("C19", "fs-not-linearizable", "no sequential order of the store operations explains the results: %s", strings.Join(h, " "))
	}
	// leftovers
	for name := range w.vfs.names {
		if strings.HasSuffix(name, ".spool") {
			w.Violate("C19", "spool-left-behind", "%s exists after all operations returned", name)
		}
	}
}

func copyState(m map[uint]string) map[uint]string {
	n := make(map[uint]string, len(m))
	for k, v := range m {
		n[k] = v
	}
	return n
}

func init() {
	mk := func(actors []ActorSpec) func() *Scenario {
		return func() *Scenario {
			return &Scenario{
				Config:   baseConfig(),
				Volatile: true,
				Actors:   actors,
				Init: func(w *World) {
					w.vfs = newVFS()
					w.vfs.gate = func(op string) {
						if !w.sch.isRoot() {
							w.sch.Gate("fs:" + op)
						}
					}
					mqtt.VerifSetOS(w.vfs.table())
					w.fsStore = mqtt.FileSystem("/d/")
				},
				Done:    allActorsDone,
				Horizon: 600,
				Final:   func(w *World) { w.monitorFSLinearizable() },
			}
		}
	}
	v := func(s string) []byte { return []byte(s + "-0123456789") }
	// the two keys are as alike as the client's keys get: an outbound PUBLISH
	// record and the inbound marker whose identifier has the same low bits
	const k1, k2 = 0x08001, 0x18001
	register("fsconc1", mk([]ActorSpec{
		{Name: "A", Ops: []Op{{Kind: "fs-save", Key: k1, Msg: v("a1")}, {Kind: "fs-save", Key: k1, Msg: v("a2")}}},
		{Name: "B", Ops: []Op{{Kind: "fs-load", Key: k1}, {Kind: "fs-list"}, {Kind: "fs-load", Key: k1}}},
		{Name: "C", Ops: []Op{{Kind: "fs-save", Key: k2, Msg: v("c1")}, {Kind: "fs-delete", Key: k2}}},
	}))
	register("fsconc2", mk([]ActorSpec{
		{Name: "A", Ops: []Op{{Kind: "fs-save", Key: k1, Msg: v("a1")}, {Kind: "fs-delete", Key: k1}}},
		{Name: "B", Ops: []Op{{Kind: "fs-load", Key: k1}, {Kind: "fs-load", Key: k2}, {Kind: "fs-list"}}},
		{Name: "C", Ops: []Op{{Kind: "fs-save", Key: k2, Msg: v("c1")}, {Kind: "fs-save", Key: k2, Msg: v("c2-longer-value")}, {Kind: "fs-load", Key: k1}}},
	}))
	// Save and Delete of one key from different goroutines
	register("fsconc3", mk([]ActorSpec{
		{Name: "A", Ops: []Op{{Kind: "fs-save", Key: k1, Msg: v("a1")}, {Kind: "fs-save", Key: k1, Msg: v("a2-longer-value")}}},
		{Name: "B", Ops: []Op{{Kind: "fs-list"}, {Kind: "fs-load", Key: k1}}},
		{Name: "C", Ops: []Op{{Kind: "fs-delete", Key: k1}, {Kind: "fs-load", Key: k1}, {Kind: "fs-delete", Key: k1}}},
	}))
	// one scenario per key bit: two concurrent savers whose keys differ in that bit only
	for bit := 0; bit < 17; bit++ {
		ka := uint(0x0aaaa)
		kb := ka ^ 1<<bit
		register(fmt.Sprintf("fsbit%02d", bit), mk([]ActorSpec{
			{Name: "A", Ops: []Op{{Kind: "fs-save", Key: ka, Msg: v("a1-longer-value")}}},
			{Name: "B", Ops: []Op{{Kind: "fs-load", Key: ka}, {Kind: "fs-load", Key: kb}, {Kind: "fs-list"}}},
			{Name: "C", Ops: []Op{{Kind: "fs-save", Key: kb, Msg: v("c1")}}},
		}))
	}
}
