package mc

import (
	"fmt"
	"strings"
)

const (
	hLegit = iota
	hEither
	hReject
)

// hostileClass judges a byte string sent by the broker against the staged
// client state: at-least-once 0x8000, 0x8001 in flight; exactly-once 0xc000
// awaiting PUBCOMP, 0xc001 awaiting PUBREC; SUBSCRIBE 0x6000 with one filter
// and a Ping pending.
func hostileClass(raw []byte) (int, string) { return hostileClassIn(raw, false) }

// hostileClassIn with loose set judges without knowledge of the client state:
// the bytes may arrive in any phase (hostileany), so an acknowledgement for an
// identifier the scenario uses at all may or may not be in order, and a SUBACK
// may find its request pending or not. Only verdicts that hold in every state
// remain rejections.
func hostileClassIn(raw []byte, loose bool) (int, string) {
	st := &hostileState{acks: []uint16{0x8000, 0x8001}, recs: []uint16{0xc001}, comps: []uint16{0xc000}, loose: loose}
	worst := hLegit
	for len(raw) > 0 {
		n, err := splitPacket(raw)
		if err == errIncomplete {
			return hReject, "incomplete packet followed by silence"
		}
		if err != nil {
			return hReject, err.Error()
		}
		c, why := st.class(raw[:n])
		if c == hReject {
			return c, why
		}
		if c > worst {
			worst = c
		}
		raw = raw[n:]
	}
	return worst, ""
}

type hostileState struct {
	acks, recs, comps []uint16
	loose             bool
}

// hostileIDs are the identifiers the publishes of the hostile scenarios get.
var hostileIDs = map[int][]uint16{tPUBACK: {0x8000, 0x8001}, tPUBREC: {0xc000, 0xc001}, tPUBCOMP: {0xc000, 0xc001}}

func (st *hostileState) class(raw []byte) (int, string) {
	typ, flags := int(raw[0]>>4), raw[0]&15
	h := 2
	for raw[h-1]&0x80 != 0 {
		h++
	}
	body := raw[h:]
	id := uint16(0)
	if len(body) >= 2 {
		id = uint16(body[0])<<8 | uint16(body[1])
	}
	switch typ {
	case 0, 15:
		return hReject, "reserved packet type"
	case tCONNECT, tSUBSCRIBE, tUNSUBSCRIBE, tPINGREQ, tDISCONNECT:
		return hReject, "client-only packet type"
	case tCONNACK:
		return hReject, "second CONNACK"
	case tPUBLISH:
		qos := int(flags >> 1 & 3)
		if qos == 3 {
			return hReject, "QoS 3"
		}
		if len(body) < 2 || int(id)+2 > len(body) {
			return hReject, "PUBLISH topic exceeds remaining length"
		}
		if qos > 0 {
			rest := body[2+int(id):]
			if len(rest) < 2 {
				return hReject, "PUBLISH identifier exceeds remaining length"
			}
			if rest[0] == 0 && rest[1] == 0 {
				return hReject, "packet identifier zero"
			}
		}
		return hEither, ""
	case tPUBACK, tPUBREC, tPUBCOMP:
		if len(body) != 2 {
			return hReject, "inconsistent length"
		}
		if id == 0 {
			return hReject, "packet identifier zero"
		}
		q := map[int]*[]uint16{tPUBACK: &st.acks, tPUBREC: &st.recs, tPUBCOMP: &st.comps}[typ]
		if st.loose {
			for _, used := range hostileIDs[typ] {
				if id == used {
					return hEither, ""
				}
			}
			return hReject, fmt.Sprintf("foreign identifier %#04x", id)
		}
		if len(*q) == 0 || id != (*q)[0] {
			return hReject, fmt.Sprintf("out-of-order, unsolicited or foreign identifier %#04x", id)
		}
		*q = (*q)[1:]
		if typ == tPUBREC {
			st.comps = append(st.comps, id)
		}
		return hLegit, ""
	case tPUBREL:
		if len(body) != 2 {
			return hReject, "inconsistent length"
		}
		if id == 0 {
			return hReject, "packet identifier zero"
		}
		return hEither, ""
	case tSUBACK:
		if len(body) < 3 {
			return hReject, "inconsistent length"
		}
		if id == 0 {
			return hReject, "packet identifier zero"
		}
		if id&0xe000 != 0x6000 {
			return hReject, "foreign identifier space"
		}
		for _, c := range body[2:] {
			if c > 2 && c != 0x80 {
				return hReject, "illegal SUBACK return code"
			}
		}
		if id == 0x6000 && len(body) != 3 && !st.loose {
			return hReject, "SUBACK return code count does not match the request"
		}
		return hEither, ""
	case tUNSUBACK:
		if len(body) != 2 {
			return hReject, "inconsistent length"
		}
		if id == 0 {
			return hReject, "packet identifier zero"
		}
		if id&0xe000 != 0x4000 {
			return hReject, "foreign identifier space"
		}
		return hEither, ""
	case tPINGRESP:
		if len(body) != 0 {
			return hReject, "inconsistent length"
		}
		return hEither, ""
	}
	return hEither, ""
}

func hostileDomain(full bool) [][]byte {
	var out [][]byte
	seen := map[string]bool{}
	add := func(b []byte) {
		if !seen[string(b)] {
			seen[string(b)] = true
			out = append(out, b)
		}
	}
	ids := [][]byte{{0, 0}, {0x80, 0x00}, {0x80, 0x01}, {0xc0, 0x00}, {0xc0, 0x01}, {0x60, 0x00}, {0x60, 0x01}, {0x40, 0x00}, {0x12, 0x34}, {0x00, 0x07}}
	tails := [][]byte{{}, {0}, {1}, {2}, {3}, {0x80}, {0xff}, {0, 0x80}, {0, 0}}
	flagsSet := []byte{0, 2}
	if full {
		flagsSet = []byte{0, 1, 2, 3, 4, 6, 8, 15}
	}
	for t := 0; t < 16; t++ {
		for _, fl := range flagsSet {
			head := byte(t<<4) | fl
			add([]byte{head, 0})
			add([]byte{head, 1, 0})
			add([]byte{head})             // truncated header
			add([]byte{head, 2, 0x80})    // truncated body
			add([]byte{head, 0x80, 0x00}) // padded zero length
			for _, id := range ids {
				for _, tl := range tails {
					body := append(append([]byte{}, id...), tl...)
					add(append([]byte{head, byte(len(body))}, body...))
				}
				// padded and 5-byte length encodings
				add(append([]byte{head, 0x82, 0x00}, id...))
				add(append([]byte{head, 0x82, 0x80, 0x80, 0x80, 0x00}, id...))
			}
			add([]byte{head, 0xff, 0xff, 0xff, 0xff, 0x01})
			add([]byte{head, 0xff, 0xff, 0xff, 0x7f})
		}
	}
	// PUBLISH shapes
	for _, fl := range []byte{0, 1, 2, 3, 4, 5, 6, 7, 8, 10, 12, 13, 14} {
		head := byte(tPUBLISH<<4) | fl
		add([]byte{head, 5, 0, 1, 't', 0, 9}) // topic t, id 9 (or payload)
		add([]byte{head, 5, 0, 1, 't', 0, 0}) // id zero
		add([]byte{head, 3, 0, 1, 't'})       // no identifier
		add([]byte{head, 3, 0, 5, 't'})       // topic beyond the packet
		add([]byte{head, 2, 0, 0})            // empty topic
		add([]byte{head, 4, 0, 1, 't', 0})    // truncated identifier
		add([]byte{head, 7, 0, 1, 't', 0, 9, 'x', 'y'})
	}
	// valid acknowledgements followed by a second packet
	add([]byte{0x40, 2, 0x80, 0x00, 0x40, 2, 0x80, 0x01})
	add([]byte{0x40, 2, 0x80, 0x00, 0x40, 2, 0x80, 0x00})
	add([]byte{0x70, 2, 0xc0, 0x00, 0x70, 2, 0xc0, 0x01})
	add([]byte{0x50, 2, 0xc0, 0x01, 0x70, 2, 0xc0, 0x01})
	add([]byte{0x90, 3, 0x60, 0x00, 0x01, 0x90, 3, 0x60, 0x00, 0x01})
	add([]byte{0xd0, 0, 0xd0, 0})
	return out
}

// monitorHostile checks C13 for the execution's hostile string.
func (w *World) monitorHostile() {
	if len(w.panics) > 0 {
		w.Violate("C13", "panic", "panic on broker input: %v", w.panics)
	}
	if !w.hostileSent {
		return
	}
	raw := w.scn.Hostile[w.hostileIdx]
	loose := w.scn.HostileOK == nil // injected in an arbitrary phase
	class, why := hostileClassIn(raw, loose)
	hIdx := -1
	for i, e := range w.log {
		if e.K == "bk-hostile" {
			hIdx = i
		}
	}
	hConn := w.log[hIdx].C
	if w.horizonHit {
		w.Violate("C13", "no-stabilisation", "after %x the execution did not become quiet within %d steps", raw, w.step)
		return
	}
	if class == hReject && w.quiet {
		// an error from ReadSlices and a fresh connection afterwards
		errSeen, redial := false, false
		for _, e := range w.log[hIdx:] {
			if e.K == "ret" && e.S == "rs" && e.R != "nil" && !strings.HasPrefix(e.R, "BigMessage") {
				errSeen = true
			}
			if e.K == "dial" && e.C > hConn {
				redial = true
			}
		}
		if errSeen {
			// the connection was given up: every request that waited for its
			// response on it has been told so (C11: every call returns)
			open := map[string]Event{}
			for _, e := range w.log {
				k := fmt.Sprintf("%s/%d", e.T, e.N)
				if e.K == "call" && (e.S == "ping" || strings.HasPrefix(e.S, "sub") || e.S == "unsub") {
					open[k] = e
				}
				if e.K == "ret" {
					delete(open, k)
				}
			}
			for _, e := range open {
				if e.Step < w.log[hIdx].Step {
					w.Violate("C11", "call-never-returns#after-reset", "%s op %d (%s) was pending when the broker sent %x; the connection was reset, yet the call has not returned at quiescence", e.T, e.N, e.S, raw)
				}
			}
		}
		if !errSeen {
			w.Violate("C13", "violation-not-reported", "broker sent %x (%s): ReadSlices reported no error", raw, why)
		} else if !redial {
			w.Violate("C13", "no-fresh-connection", "broker sent %x (%s): no fresh connection followed", raw, why)
		}
		// the client must not keep using the old connection
		for _, e := range w.log[hIdx:] {
			if e.K == "ret" && e.S == "rs" && e.R != "nil" {
				break
			}
		}
	}
	// no forged progress: records removed and exchanges closed after the
	// hostile bytes need the matching in-order acknowledgement inside them
	acked := map[int]bool{}
	if loose {
		// any acknowledgement of the right kind inside the bytes, and whatever
		// the conforming broker sent on that connection, in any order
		noteAcks := func(b []byte) {
			for len(b) > 0 {
				n, err := splitPacket(b)
				if err != nil {
					return
				}
				if t := int(b[0] >> 4); (t == tPUBACK || t == tPUBREC || t == tPUBCOMP) && n >= 4 {
					acked[int(b[n-2])<<8|int(b[n-1])] = true // whatever the length encoding
				}
				b = b[n:]
			}
		}
		noteAcks(raw)
		for _, e := range w.log {
			if e.K == "bk-send" && e.C == hConn {
				noteAcks(e.B)
			}
		}
	} else {
		st := &hostileState{acks: []uint16{0x8000, 0x8001}, recs: []uint16{0xc001}, comps: []uint16{0xc000}}
		b := raw
		for len(b) > 0 {
			n, err := splitPacket(b)
			if err != nil {
				break
			}
			c, _ := st.class(b[:n])
			if c == hReject {
				break
			}
			if c == hLegit {
				acked[int(b[n-2])<<8|int(b[n-1])] = true
			}
			b = b[n:]
		}
	}
	for _, e := range w.log[hIdx:] {
		if e.K == "dial" && e.C > hConn {
			break // a fresh connection talks to the conforming broker again
		}
		if e.C != 0 && e.C != hConn {
			continue
		}
		if e.K == "store" && e.S == "delete" && e.R == "" && e.N >= 0x8000 && e.N < 1<<16 && !acked[e.N] {
			w.Violate("C13", "forged-progress-record", "record %#04x was deleted after the broker sent %x, which is not its in-order acknowledgement", e.N, raw)
		}
		if e.K == "store" && e.S == "save" && e.R == "" && e.N >= 0xc000 && e.N < 1<<16 && !acked[e.N] {
			if pkt, _, ok := refDecodeValue(e.B); ok && len(pkt) > 0 && pkt[0]>>4 == tPUBREL {
				w.Violate("C13", "forged-progress-pubrel", "PUBREL %#04x was recorded after the broker sent %x, which is not its in-order PUBREC", e.N, raw)
			}
		}
		if e.K == "xclosed" {
			ok := false
			for _, x := range w.xchs {
				if x.actor == e.T && x.idx == e.N {
					if acked[int(w.idOf(&x.op))] {
						ok = true
					}
				}
			}
			if !ok {
				w.Violate("C13", "forged-progress-exchange", "exchange of %s op %d closed after the broker sent %x", e.T, e.N, raw)
			}
		}
	}
}

// stepDeadline is a StepCheck: a read parked in the middle of a packet has a
// deadline (PauseTimeout is configured in every scenario).
func stepDeadline(w *World) { stepDeadlineAs(w, "C13") }

// stepDeadlinesC07 is the same check where the consequence belongs to C07 as
// well: a writer that can stall for ever keeps the write token, and the
// acknowledgement the read routine owes is never written on any connection.
func stepDeadlinesC07(w *World) {
	stepDeadlineAs(w, "C13")
	stepDeadlineAs(w, "C07")
}

func stepDeadlineAs(w *World, prop string) {
	w.sch.mu.Lock()
	defer w.sch.mu.Unlock()
	for _, th := range w.sch.threads {
		if !th.done && th.parked && th.kind == kindEnv && th.env.op == "write" && th.gen == w.sch.gen {
			if c := th.env.conn; c.wdl.IsZero() && !c.closed {
				w.Violate(prop, "write-without-deadline", "c%d: %s writes %d bytes without a write deadline although PauseTimeout is configured", c.id, th.name, len(th.env.buf))
			}
		}
		if th.done || !th.parked || th.kind != kindEnv || th.env.op != "read" || th.gen != w.sch.gen {
			continue
		}
		c := th.env.conn
		if c.closed || c.dead || len(c.in) > 0 {
			continue
		}
		// bytes handed to the client so far: at a packet boundary of what was sent?
		pos := 0
		mid := false
		for pos < c.nRead {
			n, err := splitPacket(c.sentIn[pos:])
			if err != nil {
				mid = err == errIncomplete && pos < c.nRead
				break
			}
			if pos+n > c.nRead {
				mid = true
				break
			}
			pos += n
		}
		if mid && c.rdl.IsZero() {
			w.Violate(prop, "mid-packet-read-without-deadline", "c%d: read parked after %d bytes, inside a packet, without a read deadline", c.id, c.nRead)
		}
	}
}

func init() {
	mkHostile := func(full bool, anywhere bool) func() *Scenario {
		return func() *Scenario {
			cfg := baseConfig()
			s := &Scenario{
				Config: cfg,
				Actors: []ActorSpec{
					{Name: "reader", Reader: &ReaderSpec{Backoff: true}},
					{Name: "A", Ops: []Op{{Kind: "pub1", Topic: "h/1", Msg: []byte("H1-aaaa")}, {Kind: "pub1", Topic: "h/2", Msg: []byte("H2-aaaa")}}},
					{Name: "B", Ops: []Op{{Kind: "pub2", Topic: "h/3", Msg: []byte("H3-bbbb")}, {Kind: "pub2", Topic: "h/4", Msg: []byte("H4-bbbb")}}},
					{Name: "C", Ops: []Op{{Kind: "sub", Filters: []string{"h/s"}}}},
					{Name: "D", Ops: []Op{{Kind: "ping"}}},
				},
				Mute: func(p *Packet) bool {
					switch p.Type {
					case tSUBSCRIBE, tPINGREQ, tPUBREL:
						return p.Type != tPUBREL || true
					case tPUBLISH:
						return p.QoS == 1 || p.Topic == "h/4"
					}
					return false
				},
				Hostile:   hostileDomain(full),
				Horizon:   2500,
				StepCheck: stepDeadline,
				Final: func(w *World) {
					w.monitorHostile()
					w.monitorRequests()
				},
			}
			if !anywhere {
				s.HostileOK = func(w *World) bool {
					n := 0
					for _, e := range w.log {
						if e.K == "bk-recv" && e.Gen == w.gen && e.C == 1 {
							n++
						}
					}
					// CONNECT, 2 PUBLISH q1, 2 PUBLISH q2, PUBREL, SUBSCRIBE, PINGREQ — and the reader idle
					return n >= 8 && len(w.conns) == 1 && len(w.conns[0].in) == 0
				}
			}
			return s
		}
	}
	register("hostile", mkHostile(false, false))
	register("hostilefull", mkHostile(true, false))
	register("hostileany", mkHostile(false, true))
	// the strings that end inside a packet, in any phase: what is left to the
	// clock (PauseTimeout) while other goroutines keep writing
	register("hostilepart", func() *Scenario {
		s := mkHostile(false, true)()
		var part [][]byte
		for _, raw := range s.Hostile {
			b := raw
			for len(b) > 0 {
				n, err := splitPacket(b)
				if err != nil {
					if err == errIncomplete {
						part = append(part, raw)
					}
					break
				}
				b = b[n:]
			}
		}
		s.Hostile = part
		return s
	})
}
