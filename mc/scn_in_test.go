package mc

import (
	"bytes"
	"fmt"
	"strings"
)

// sentPublishes lists the PUBLISH packets the broker put on the wire, in order.
func (w *World) sentPublishes() []*Packet {
	var out []*Packet
	for _, e := range w.log {
		if e.K == "bk-send" && len(e.B) > 0 && e.B[0]>>4 == tPUBLISH {
			if p, err := decodePacket(e.B, false); err == nil {
				p.Flags = byte(e.C) // remember the connection
				out = append(out, p)
			}
		}
	}
	return out
}

// monitorInbound checks C06 for executions without connection loss: the
// returns of ReadSlices equal the PUBLISH packets sent, byte-exact, in order.
func (w *World) monitorInbound() {
	var sent []*Packet
	for _, p := range w.sentPublishes() {
		// a retransmitted exactly-once PUBLISH follows its original in the same
		// stream: the marker is in place by then and the copy must be skipped
		dup := false
		for _, q := range sent {
			dup = dup || p.QoS == 2 && p.Dup && q.QoS == 2 && q.ID == p.ID && q.Flags == p.Flags && q.Topic == p.Topic
		}
		if !dup {
			sent = append(sent, p)
		}
	}
	var got []*Delivery
	for _, d := range w.deliveries {
		if d.Err == nil || d.Big {
			got = append(got, d)
		}
	}
	// whatever happens to the connection: content that ReadAll hands out
	// without an error is the content of a PUBLISH the broker sent
	for _, d := range got {
		if !d.Big || d.BigErr != nil || d.BigBody == nil {
			continue
		}
		ok := false
		for _, p := range sent {
			ok = ok || p.Topic == d.BigTopic && bytes.Equal(p.Body, d.BigBody)
		}
		if !ok {
			w.Violate("C06", "bigmessage-content", "ReadAll of BigMessage{Topic:%q Size:%d} returned %d bytes without an error; no PUBLISH with that topic has this content", d.BigTopic, d.BigSize, len(d.BigBody))
		}
	}
	lost := len(w.conns) > 1
	for i, d := range got {
		if i >= len(sent) {
			w.Violate("C06", "delivery-not-sent", "ReadSlices return %d (%q %dB) has no PUBLISH counterpart", i, d.Topic, len(d.Msg))
			break
		}
		p := sent[i]
		if lost {
			break // sequences across reconnects are judged by C04/C07
		}
		if d.Big {
			if d.BigTopic != p.Topic || d.BigSize != len(p.Body) {
				w.Violate("C06", "bigmessage-mismatch", "return %d: BigMessage{Topic:%q Size:%d}, sent %q with %d bytes", i, d.BigTopic, d.BigSize, p.Topic, len(p.Body))
				break
			}
			if d.BigErr == nil && d.BigBody != nil && !bytes.Equal(d.BigBody, p.Body) {
				w.Violate("C06", "bigmessage-content", "return %d: ReadAll content differs from the %d bytes sent to %q", i, len(p.Body), p.Topic)
				break
			}
			continue
		}
		if string(d.Topic) != p.Topic || !bytes.Equal(d.Msg, p.Body) {
			w.Violate("C06", "delivery-mismatch", "return %d: got (%q, %d bytes %x…), sent (%q, %d bytes)", i, d.Topic, len(d.Msg), trunc(d.Msg), p.Topic, len(p.Body))
			break
		}
	}
	if !lost && w.quiet && !w.horizonHit && len(got) < len(sent) {
		// anything else than a delivery must have been an error return
		errs := 0
		for _, d := range w.deliveries {
			if d.Err != nil && !d.Big {
				errs++
			}
		}
		if errs == 0 {
			w.Violate("C06", "delivery-missing", "%d PUBLISH packets sent, only %d returned, no error reported", len(sent), len(got))
		}
	}
	// a deadline expiry that saw progress is survived: an error return right
	// after such an expiry (first connection, nothing else wrong) is not allowed
	if len(w.conns) > 0 {
		lastTimeoutProgress, failed := -1, false
		for _, e := range w.log {
			if e.C == 1 && e.K == "read" && strings.Contains(e.R, "timeout") {
				lastTimeoutProgress = e.N
			}
			if e.K == "store" && e.R != "" {
				failed = true
			}
			if e.K == "dial" && e.C > 1 {
				break
			}
			if e.K == "ret" && e.S == "rs" && strings.Contains(e.R, "timeout") && !failed {
				if lastTimeoutProgress > 0 && !strings.Contains(e.R, "CONNECT not confirmed") {
					w.Violate("C06", "progress-misjudged", "the deadline expired after %d bytes had arrived since it was set, yet ReadSlices gave up: %s", lastTimeoutProgress, e.R)
				}
				break
			}
		}
	}
	w.monitorUnexplainedErrors("C06")
}

// monitorAckTiming checks C07.
func (w *World) monitorAckTiming() {
	// walk the log: ownership windows of the reader
	type held struct {
		id    uint16
		qos   int
		since int
	}
	var cur *held
	ackCount := map[uint16]int{}
	delivered := map[uint16]int{}
	cycleDelivered := map[uint16]bool{} // QoS 2: a return since the last PUBCOMP for this identifier
	sentIdx := 0
	sent := w.sentPublishes()
	_ = sent
	for i, e := range w.log {
		switch e.K {
		case "ret":
			if e.S != "rs" {
				continue
			}
			// which message was returned: match by topic+payload against the inbound script
			cur = nil
			var topic, body []byte
			if e.R == "nil" && e.B != nil {
				k := bytes.IndexByte(e.B, 0)
				topic, body = e.B[:k], e.B[k+1:]
			} else if strings.HasPrefix(e.R, "BigMessage(") {
				// topic inside the result string
				for _, in := range w.scn.Inbound {
					if strings.Contains(e.R, fmt.Sprintf("%q", in.Topic)) {
						topic, body = []byte(in.Topic), in.Body
					}
				}
			} else {
				continue
			}
			for _, in := range w.scn.Inbound {
				if in.Topic == string(topic) && (body == nil || bytes.Equal(in.Body, body)) && in.QoS > 0 {
					cur = &held{id: in.ID, qos: in.QoS, since: i}
					delivered[in.ID]++
					if in.QoS == 2 {
						cycleDelivered[in.ID] = true
					}
				}
			}
			_ = sentIdx
		case "call":
			if e.S == "rs" {
				cur = nil
			}
		case "write":
			// acknowledgement bytes: look at complete 4-byte PUBACK/PUBREC packets inside this write
			b := e.B
			for len(b) >= 4 {
				n, err := splitPacket(b)
				if err != nil {
					break
				}
				if n == 4 && b[0] == tPUBCOMP<<4 {
					delete(cycleDelivered, uint16(b[2])<<8|uint16(b[3])) // the cycle ends; the identifier may be reused
				}
				if n == 4 && b[0] == tPUBREC<<4 {
					if id := uint16(b[2])<<8 | uint16(b[3]); !cycleDelivered[id] && delivered[id] > 0 && w.isQoS2Inbound(id) {
						w.Violate("C07", "ack-without-delivery#cycle", "PUBREC %#04x written at step %d for a new delivery cycle whose message was never returned by ReadSlices (the previous cycle ended with PUBCOMP)", id, e.Step)
					}
				}
				if n == 4 && (b[0] == tPUBACK<<4 || b[0] == tPUBREC<<4) {
					id := uint16(b[2])<<8 | uint16(b[3])
					ackCount[id]++
					if cur != nil && cur.id == id {
						w.Violate("C07", "ack-before-ownership", "%s %#04x written at step %d while the application still holds the message returned at step %d", typeNames[b[0]>>4], id, e.Step, w.log[cur.since].Step)
					}
					if delivered[id] == 0 {
						w.Violate("C07", "ack-without-delivery", "%s %#04x written at step %d but that message was never returned by ReadSlices", typeNames[b[0]>>4], id, e.Step)
					}
				}
				b = b[n:]
			}
		}
	}
	if w.quiet && !w.horizonHit {
		// every return is acknowledged by an acknowledgement of its own: a
		// retransmission by the broker (and its acknowledgement) does not
		// stand in for the one the client owes for the first delivery
		tl, _ := w.wireTimeline()
		complete := map[uint16]int{}
		for _, x := range tl {
			if x.p.Type == tPUBACK || x.p.Type == tPUBREC {
				complete[x.p.ID]++
			}
		}
		for id, n := range delivered {
			if complete[id] < n && w.client != nil && w.gen == 0 {
				w.Violate("C07", "delivery-ack-missing", "message %#04x was returned %d times by ReadSlices but only %d acknowledgements for it were written", id, n, complete[id])
			}
		}
		for _, sess := range w.bk.sessions {
			for _, m := range sess.out {
				if m.state == 1 && delivered[m.id] > 0 {
					w.Violate("C07", "delivery-never-acked", "message %#04x (QoS %d) was returned by ReadSlices but is still unacknowledged at quiescence", m.id, m.qos)
				}
			}
		}
	}
}

func (w *World) isQoS2Inbound(id uint16) bool {
	for _, in := range w.scn.Inbound {
		if in.QoS == 2 && in.ID == id {
			return true
		}
	}
	return false
}

// dupSuppressed reports whether a marker for id existed (an earlier
// generation or cycle delivered it) before log index i.
func (w *World) dupSuppressed(id uint16, i int) bool {
	for _, e := range w.log[:i] {
		if e.K == "store" && e.S == "save" && e.N == int(id)|1<<16 {
			return true
		}
	}
	return false
}

// monitorQoS2In checks C04.
func (w *World) monitorQoS2In() {
	// per identifier: marker life cycle from the store log, returns from the ret events
	markerSince := map[uint16]int{} // log index of the effective Save, -1 when none
	pubrecAt := map[uint16]int{}    // step at which a PUBREC for the running cycle was handed to a connection
	for i, e := range w.log {
		if e.K == "write" && len(e.B) >= 4 {
			for b := e.B; len(b) >= 4; {
				n, err := splitPacket(b)
				if err != nil {
					break
				}
				id := uint16(b[n-2])<<8 | uint16(b[n-1])
				switch {
				case n == 4 && b[0] == tPUBREC<<4:
					if _, ok := pubrecAt[id]; !ok {
						pubrecAt[id] = e.Step
					}
				case n == 4 && b[0] == tPUBCOMP<<4:
					delete(pubrecAt, id)
				}
				b = b[n:]
			}
		}
		if e.K == "ret" && e.S == "rs" && e.R == "nil" && e.B != nil {
			k := bytes.IndexByte(e.B, 0)
			topic, body := e.B[:k], e.B[k+1:]
			for _, in := range w.scn.Inbound {
				if in.QoS == 2 && in.Topic == string(topic) && bytes.Equal(in.Body, body) {
					if at, ok := pubrecAt[in.ID]; ok {
						w.Violate("C04", "redelivery-after-pubrec", "QoS 2 message %#04x %q returned again at step %d although the client had written its PUBREC at step %d and no PUBREL ended the cycle", in.ID, in.Topic, e.Step, at)
					}
				}
			}
		}
		switch {
		case e.K == "store" && e.R == "" && e.N&(1<<16) != 0 && e.S == "save":
			markerSince[uint16(e.N)] = i
		case e.K == "store" && e.R == "" && e.N&(1<<16) != 0 && e.S == "delete":
			delete(markerSince, uint16(e.N))
		case e.K == "ret" && e.S == "rs" && e.R == "nil" && e.B != nil:
			k := bytes.IndexByte(e.B, 0)
			topic, body := e.B[:k], e.B[k+1:]
			for _, in := range w.scn.Inbound {
				if in.QoS == 2 && in.Topic == string(topic) && bytes.Equal(in.Body, body) {
					if at, ok := markerSince[in.ID]; ok {
						w.Violate("C04", "redelivery-after-ownership", "QoS 2 message %#04x %q returned again at step %d although its reception was recorded at step %d and no PUBREL ended the cycle", in.ID, in.Topic, e.Step, w.log[at].Step)
					}
				}
			}
		}
	}
	if w.horizonHit {
		w.Violate("C04", "no-stabilisation", "execution did not become quiet within %d steps", w.step)
		return
	}
	if !w.quiet {
		return
	}
	for _, sess := range w.bk.sessions {
		for _, m := range sess.out {
			if m.qos == 2 {
				w.Violate("C04", "handshake-stuck", "broker still waits for the client on QoS 2 message %#04x (state %d: 1=awaits PUBREC, 2=awaits PUBCOMP) at quiescence", m.id, m.state)
			}
		}
	}
	if w.bk.nextIn == len(w.scn.Inbound) {
		for k := range w.records() {
			if k&(1<<16) != 0 {
				w.Violate("C04", "marker-left-behind", "inbound marker %#x still stored although every handshake completed", k)
			}
		}
		// every message delivered at least once
		for _, in := range w.scn.Inbound {
			if in.QoS != 2 {
				continue
			}
			n := 0
			for _, d := range w.deliveries {
				if (d.Err == nil && string(d.Topic) == in.Topic && bytes.Equal(d.Msg, in.Body)) || (d.Big && d.BigTopic == in.Topic) {
					n++
				}
			}
			if n == 0 {
				w.Violate("C04", "never-delivered", "inbound message %q (QoS %d) was acknowledged end to end but never returned by ReadSlices", in.Topic, in.QoS)
			}
		}
	}
}

func pay(tag string, n int) []byte {
	b := make([]byte, n)
	for i := range b {
		b[i] = byte('a' + (i*7+len(tag))%26)
	}
	copy(b, tag)
	return b
}

func cutsEvery(n int) []int {
	r := make([]int, 0, n)
	for i := 1; i < n; i++ {
		r = append(r, i)
	}
	return r
}

func init() {
	mkInbound := func(buf int, readBig bool) func() *Scenario {
		return func() *Scenario {
			cfg := baseConfig()
			in := []InMsg{
				{QoS: 0, Topic: "i/0", Body: pay("zero", 5)},
				{QoS: 1, ID: 1, Topic: "i/1", Body: pay("one", buf-2-2-3-2)}, // fills the buffer exactly
				{QoS: 2, ID: 2, Topic: "i/2", Body: []byte{}},
				{QoS: 1, ID: 3, Topic: "i/3", Body: pay("big", buf+3), Retain: true},
				{QoS: 0, Topic: "i/4", Body: pay("edge", buf-2-3+1)}, // one byte beyond the buffer
				{QoS: 2, ID: 4, Topic: "i/5", Body: pay("huge", 2*buf+7)},
				{QoS: 0, Topic: "i/6", Body: pay("last", 3)},
			}
			return &Scenario{
				Config:   cfg,
				Volatile: false,
				ReadBuf:  buf,
				Burst:    true,
				Actors:   []ActorSpec{{Name: "reader", Reader: &ReaderSpec{Backoff: true, ReadBig: readBig}}},
				Inbound:  in,
				Faults:   Faults{ReadCuts: cutsEvery, ReadStall: true, BrokerResend: true},
				Horizon:  3000,
				Final: func(w *World) {
					w.monitorWire()
					w.monitorInbound()
					w.monitorAckTiming()
					w.monitorQoS2In()
				},
			}
		}
	}
	// control packets between the messages (tolerated late answers and a stray
	// pong), and a failing marker Save: the stream stays aligned
	register("inboundctl", func() *Scenario {
		s := mkInbound(32, true)()
		s.Inbound = []InMsg{
			{QoS: 0, Topic: "i/0", Body: pay("zero", 5)},
			{Raw: encAck(tUNSUBACK, 0x4001)},
			{QoS: 1, ID: 1, Topic: "i/1", Body: pay("one", 9)},
			{Raw: encSuback(0x6001, []byte{1, 0x80})},
			{QoS: 2, ID: 2, Topic: "i/2", Body: pay("two", 4)},
			{Raw: []byte{tPINGRESP << 4, 0}},
			{Raw: encAck(tUNSUBACK, 0x4002)},
			{QoS: 0, Topic: "i/3", Body: pay("three", 40)},
			{QoS: 0, Topic: "i/4", Body: pay("four", 2)},
		}
		s.Faults.Store = map[string]bool{"save": true}
		return s
	})
	// a connection lost in the middle of a packet, then the rest of the
	// session's traffic on a fresh connection: nothing of the old stream's
	// bookkeeping may be applied to the new one
	register("inboundcut", func() *Scenario {
		s := mkInbound(32, true)()
		s.Faults = Faults{ReadCuts: cutsEvery, Cut: true, CutDrop: true}
		return s
	})
	register("inbound32", mkInbound(32, true))
	register("inbound32skip", mkInbound(32, false))
	register("inbound64", mkInbound(64, true))

	// an acknowledgement is owed across a reconnect that also has an outbound
	// PUBLISH to retransmit
	register("ackresend", func() *Scenario {
		return &Scenario{
			Config: baseConfig(),
			Burst:  true,
			Actors: []ActorSpec{
				{Name: "reader", Reader: &ReaderSpec{Backoff: true}},
				{Name: "D", Ops: []Op{{Kind: "pub1", Topic: "o/d", Msg: []byte("D-payload")}, {Kind: "pub2", Topic: "o/e", Msg: []byte("E-payload")}}},
			},
			Inbound: []InMsg{
				{QoS: 1, ID: 11, Topic: "k/1", Body: []byte("first-q1")},
				{QoS: 2, ID: 12, Topic: "k/2", Body: []byte("second-q2")},
			},
			Faults:  Faults{WriteCuts: cutsEdge, WriteErr: true, WriteTimeout: true, Cut: true, NoResponse: true},
			Horizon: 3000,
			Final: func(w *World) {
				w.monitorWire()
				w.monitorAckTiming()
				w.monitorQoS2In()
				// (no "every error has a cause" rule here: see DESIGN §6, the
				// PUBREL sent twice after a reconnect makes the client reset a
				// healthy connection, which no clause of C07 forbids)
			},
		}
	})
	register("acktiming", func() *Scenario {
		return &Scenario{
			Config:  baseConfig(),
			ReadBuf: 64,
			Actors: []ActorSpec{
				{Name: "reader", Reader: &ReaderSpec{Backoff: true, ReadBig: true}},
				{Name: "A", Ops: []Op{{Kind: "pub0", Topic: "o/a", Msg: []byte("A-payload")}, {Kind: "ping"}}},
				{Name: "B", Ops: []Op{{Kind: "sub", Filters: []string{"o/b"}}}},
			},
			Inbound: []InMsg{
				{QoS: 1, ID: 11, Topic: "k/1", Body: []byte("first-q1")},
				{QoS: 2, ID: 12, Topic: "k/2", Body: []byte("second-q2")},
				{QoS: 0, Topic: "k/0", Body: []byte("third-q0")},
				{QoS: 1, ID: 13, Topic: "k/3", Body: pay("bigq1", 80)},
			},
			Faults: Faults{WriteCuts: cutsEdge, WriteErr: true, WriteTimeout: true, Cut: true, NoResponse: true,
				Store: map[string]bool{"load": true, "save": true}},
			Horizon:   3000,
			StepCheck: stepDeadlinesC07,
			Final: func(w *World) {
				w.monitorWire()
				w.monitorAckTiming()
				w.monitorQoS2In()
				w.monitorUnexplainedErrors("C07")
				w.monitorRequests()
			},
		}
	})
	register("qos2in", func() *Scenario {
		rd := ActorSpec{Name: "reader", Reader: &ReaderSpec{Backoff: true, ReadBig: true}}
		return &Scenario{
			Config:  baseConfig(),
			ReadBuf: 64,
			Actors:  []ActorSpec{rd},
			Gens:    [][]ActorSpec{{rd}, {rd}},
			Inbound: []InMsg{
				{QoS: 2, ID: 1, Topic: "x/1", Body: []byte("one-q2")},
				{QoS: 2, ID: 2, Topic: "x/2", Body: pay("two-big", 90)},
				{QoS: 2, ID: 1, Topic: "x/3", Body: []byte("three-reuses-1")},
			},
			InjectOK: func(w *World) bool {
				c := w.liveConn()
				return c != nil && c.bk.sess != nil && c.bk.sess.idFree(w.scn.Inbound[w.bk.nextIn].ID)
			},
			Faults: Faults{Cut: true, CutDrop: true, WriteLost: true, BrokerResend: true, Crash: true,
				Store: map[string]bool{"save": true, "load": true, "delete": true}},
			Horizon: 3000,
			Final: func(w *World) {
				w.monitorWire()
				w.monitorAckTiming()
				w.monitorQoS2In()
				w.monitorUnexplainedErrors("C04")
			},
		}
	})
}
