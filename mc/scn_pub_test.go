package mc

import (
	"time"

	"github.com/pascaldekloe/mqtt"
)

func baseConfig() mqtt.Config {
	return mqtt.Config{
		PauseTimeout:     100 * time.Millisecond,
		ReconnectWaitMin: 20 * time.Millisecond,
		ReconnectWaitMax: 80 * time.Millisecond,
		AtLeastOnceMax:   3,
		ExactlyOnceMax:   3,
	}
}

func cutsEdge(n int) []int {
	switch {
	case n <= 1:
		return []int{0}
	case n == 2:
		return []int{0, 1}
	}
	return []int{0, 1, n - 1}
}

func allActorsDone(w *World) bool {
	for _, a := range w.actors {
		if a.gen == w.gen && a.spec.Reader == nil && !a.finished {
			return false
		}
	}
	return true
}

func init() {
	register("pubflow", func() *Scenario {
		return &Scenario{
			Config: baseConfig(),
			Actors: []ActorSpec{
				{Name: "reader", Reader: &ReaderSpec{}},
				{Name: "A", Ops: []Op{
					{Kind: "pub1", Topic: "t/1", Msg: []byte("m1-aaaa")},
					{Kind: "pub2", Topic: "t/2", Msg: []byte("m2-bbbb")},
					{Kind: "pub1r", Topic: "t/3", Msg: []byte("m3-cccc")},
				}},
			},
			Faults: Faults{
				WriteCuts: cutsEdge, WriteTimeout: true, WriteErr: true, WriteLost: true, NoResponse: true,
				Cut: true, DialErr: true, Connacks: [][]byte{{0x20, 2, 0, 3}},
				Store: map[string]bool{"save": true, "delete": true, "load": true},
			},
			Final: func(w *World) {
				w.monitorWire()
				w.monitorDelivery("C01")
			},
		}
	})
}
