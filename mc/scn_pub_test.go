package mc

import (
	"time"

	"github.com/pascaldekloe/mqtt"
)

func baseConfig() mqtt.Config {
	return mqtt.Config{
		PauseTimeout:     100 * time.Millisecond,
		ReconnectWaitMin: 20 * time.Millisecond,
		ReconnectWaitMax: 80 * time.Millisecond,
		AtLeastOnceMax:   3,
		ExactlyOnceMax:   3,
	}
}

func cutsEdge(n int) []int {
	switch {
	case n <= 1:
		return []int{0}
	case n == 2:
		return []int{0, 1}
	}
	return []int{0, 1, n - 1}
}

func allActorsDone(w *World) bool {
	for _, a := range w.actors {
		if a.gen == w.gen && a.spec.Reader == nil && !a.finished {
			return false
		}
	}
	return true
}

func init() {
	register("pubflow", func() *Scenario {
		return &Scenario{
			Config: baseConfig(),
			Actors: []ActorSpec{
				{Name: "reader", Reader: &ReaderSpec{}},
				{Name: "A", Ops: []Op{
					{Kind: "pub1", Topic: "t/1", Msg: []byte("m1-aaaa")},
					{Kind: "pub2", Topic: "t/2", Msg: []byte("m2-bbbb")},
					{Kind: "pub1r", Topic: "t/3", Msg: []byte("m3-cccc")},
				}},
			},
			Faults: Faults{
				WriteCuts: cutsEdge, WriteTimeout: true, WriteErr: true, WriteLost: true, NoResponse: true,
				Cut: true, DialErr: true, Connacks: [][]byte{{0x20, 2, 0, 3}},
				Store: map[string]bool{"save": true, "delete": true, "load": true},
			},
			Final: func(w *World) {
				w.monitorWire()
				w.monitorDelivery("C01")
			},
		}
	})
}

func init() {
	register("puborder", func() *Scenario {
		return &Scenario{
			Config: baseConfig(),
			Actors: []ActorSpec{
				{Name: "reader", Reader: &ReaderSpec{Backoff: true}},
				{Name: "A", Ops: []Op{
					{Kind: "pub1", Topic: "a/1", Msg: []byte("A1-aaaa")},
					{Kind: "pub1r", Topic: "a/2", Msg: []byte("A2-aaaa")}, // retained variants: the flag bits differ, the rules do not
				}},
				{Name: "B", Ops: []Op{
					{Kind: "pub2", Topic: "b/1", Msg: []byte("B1-bbbb")},
					{Kind: "pub2r", Topic: "b/2", Msg: []byte("B2-bbbb")},
				}},
				{Name: "C", Ops: []Op{
					{Kind: "pub1", Topic: "c/1", Msg: []byte("C1-cccc")},
					{Kind: "pub2", Topic: "c/2", Msg: []byte("C2-cccc")},
				}},
			},
			Faults:  Faults{Cut: true, DialErr: true, WriteCuts: cutsEdge, WriteErr: true, WriteTimeout: true, NoResponse: true},
			Horizon: 1500,
			Final: func(w *World) {
				w.monitorWire()
				w.monitorOrder()
				w.monitorQoS2Out()
				w.monitorDelivery("C01")
			},
		}
	})
	// a Persistence whose Load hands out its own memory (as the library's
	// in-memory map does): what the client does to a loaded value then lands in
	// the store
	register("pubflowalias", func() *Scenario {
		s := scenarios["pubflow"]()
		s.AliasLoad = true
		return s
	})
	// VolatileSession: the library's own in-memory store; retransmission after a
	// reconnect reads what that store kept
	register("pubflowvol", func() *Scenario {
		return &Scenario{
			Config:   baseConfig(),
			Volatile: true,
			Actors: []ActorSpec{
				{Name: "reader", Reader: &ReaderSpec{Backoff: true}},
				{Name: "A", Ops: []Op{
					{Kind: "pub2", Topic: "v/1", Msg: []byte("V1-aaaa")},
					{Kind: "pub2", Topic: "v/2", Msg: []byte("V2-bbbb")},
					{Kind: "pub1", Topic: "v/3", Msg: []byte("V3-cccc")},
					{Kind: "pub2r", Topic: "v/4", Msg: []byte("V4-dddd")},
				}},
			},
			Inbound: []InMsg{{QoS: 1, ID: 9, Topic: "in/9", Body: []byte("inbound")}},
			Faults:  Faults{Cut: true, NoResponse: true, WriteLost: true, WriteCuts: cutsEdge, WriteErr: true},
			Horizon: 1500,
			Final: func(w *World) {
				w.monitorWire()
				w.monitorDelivery("C01")
				w.monitorPubrelWire("C05")
				w.monitorPubrelWire("C03")
				w.monitorQoS2Out()
			},
		}
	})
	// a broker that takes its time with PUBCOMP: for two generations PUBRELs
	// stay unanswered, so that each restart finds PUBREL records of different
	// ages next to fresh PUBLISH records
	register("qos2hold", func() *Scenario {
		cfg := baseConfig()
		cfg.ExactlyOnceMax = 4
		rd := ActorSpec{Name: "reader", Reader: &ReaderSpec{Backoff: true}}
		var w0 *World
		return &Scenario{
			Config: cfg,
			Init:   func(w *World) { w0 = w },
			Actors: []ActorSpec{rd, {Name: "A", Ops: []Op{
				{Kind: "pub2", Topic: "h/1", Msg: []byte("H1-aaaa")},
				{Kind: "pub2", Topic: "h/2", Msg: []byte("H2-bbbb")},
				{Kind: "pub2", Topic: "h/3", Msg: []byte("H3-cccc")},
			}}},
			Gens: [][]ActorSpec{{rd}, {rd, {Name: "A", Ops: []Op{{Kind: "pub2", Topic: "h/4", Msg: []byte("H4-dddd")}}}}},
			Mute: func(p *Packet) bool {
				if w0 == nil || w0.gen >= 2 {
					return false
				}
				// no PUBCOMP before the last generation; in the first one the third PUBLISH gets no PUBREC either
				return p.Type == tPUBREL || w0.gen == 0 && p.Type == tPUBLISH && p.Topic == "h/3"
			},
			Faults:  Faults{Crash: true},
			Horizon: 1500,
			Final: func(w *World) {
				w.monitorWire()
				w.monitorRestart()
				if w.gen == 2 {
					w.monitorQoS2Out()
					w.monitorAllDelivered("C03")
					w.monitorAllDelivered("C02")
					w.monitorOrder() // C05: PUBRELs of two ages, then the PUBLISHes, in order
				}
			},
		}
	})
	// exactly-once traffic next to at-least-once traffic with a different
	// count, no stops: a reconnect that fails while the other level is being
	// retransmitted must leave this level's sequence as it was
	register("qos2mix", func() *Scenario {
		s := scenarios["qos2out"]()
		s.Actors = append(s.Actors, ActorSpec{Name: "B", Ops: []Op{{Kind: "pub1", Topic: "r/1", Msg: []byte("R1-eeee")}}})
		s.Gens = nil
		s.Faults = Faults{Cut: true, NoResponse: true, WriteCuts: cutsEdge, WriteErr: true, Store: map[string]bool{"load": true}}
		return s
	})
	register("qos2out", func() *Scenario {
		cfg := baseConfig()
		cfg.ExactlyOnceMax = 2
		return &Scenario{
			Config: cfg,
			Actors: []ActorSpec{
				{Name: "reader", Reader: &ReaderSpec{Backoff: true}},
				{Name: "A", Ops: []Op{
					{Kind: "pub2", Topic: "q/1", Msg: []byte("Q1-aaaa")},
					{Kind: "pub2", Topic: "q/2", Msg: []byte("Q2-bbbb")},
					{Kind: "pub2r", Topic: "q/3", Msg: []byte("Q3-cccc")},
				}},
			},
			Gens: [][]ActorSpec{
				{{Name: "reader", Reader: &ReaderSpec{Backoff: true}}, {Name: "A", Ops: []Op{{Kind: "pub2", Topic: "q/4", Msg: []byte("Q4-dddd")}}}},
				{{Name: "reader", Reader: &ReaderSpec{Backoff: true}}},
			},
			Faults: Faults{Cut: true, NoResponse: true, WriteLost: true, WriteCuts: cutsEdge, WriteErr: true, Crash: true,
				Store: map[string]bool{"save": true, "delete": true}},
			Horizon: 1500,
			Final: func(w *World) {
				w.monitorWire()
				w.monitorOrder()
				w.monitorQoS2Out()
				w.monitorRestart()
				w.monitorAllDelivered("C03")
			},
		}
	})
}
