package mc

func cutsAll(n int) []int {
	r := make([]int, 0, n)
	for i := 0; i < n; i++ {
		r = append(r, i)
	}
	return r
}

var hugeBuf []byte

// hugeMsg is one byte more than a packet can carry; the pages are never touched.
func hugeMsg() []byte {
	if hugeBuf == nil {
		hugeBuf = make([]byte, 256<<20)
	}
	return hugeBuf
}

func init() {
	register("writers", func() *Scenario {
		return &Scenario{
			Config:   baseConfig(),
			Volatile: false,
			Actors: []ActorSpec{
				{Name: "reader", Reader: &ReaderSpec{Backoff: true}},
				// a denied request first: refusals must leave no trace, not even in the buffer pool
				{Name: "A", Ops: []Op{{Kind: "pub1", Topic: "", Msg: []byte("denied-no-topic")}, {Kind: "pub2", Topic: "bad\x00topic", Msg: []byte("denied-nul")}, {Kind: "pub0", Topic: "w/huge", Msg: hugeMsg()}, {Kind: "pub0", Topic: "w/a", Msg: []byte("A-0123456789-0123456789-0123456789-end")}}},
				{Name: "B", Ops: []Op{{Kind: "sub", Filters: []string{"w/b"}}}},
				{Name: "C", Ops: []Op{{Kind: "ping"}, {Kind: "pub0r", Topic: "w/c", Msg: []byte{}}}},
				{Name: "D", Ops: []Op{{Kind: "pub1", Topic: "w/d", Msg: []byte("D-payload")}}},
			},
			Inbound: []InMsg{{QoS: 1, ID: 7, Topic: "in/1", Body: []byte("inbound-1")}},
			Faults:  Faults{WriteCuts: cutsAll, WriteTimeout: true, WriteErr: true},
			Horizon: 1500,
			Final: func(w *World) {
				w.monitorWire()
				w.monitorRequests()
				w.monitorDelivery("C01")
			},
		}
	})
	// remaining lengths at the first boundary of the length encoding (127,
	// 128, 129) on every publish path, plain and persisted
	register("writerslen", func() *Scenario {
		pl := func(tag string, rl, overhead int) []byte { return pay(tag, rl-overhead) }
		return &Scenario{
			Config: baseConfig(),
			Actors: []ActorSpec{
				{Name: "reader", Reader: &ReaderSpec{Backoff: true}},
				{Name: "A", Ops: []Op{{Kind: "pub0", Topic: "w/a", Msg: pl("a127", 127, 2+3)}, {Kind: "pub0", Topic: "w/a", Msg: pl("a128", 128, 2+3)}, {Kind: "pub0r", Topic: "w/a", Msg: pl("a129", 129, 2+3)}}},
				{Name: "D", Ops: []Op{{Kind: "pub1", Topic: "w/d", Msg: pl("d128", 128, 2+3+2)}, {Kind: "pub2", Topic: "w/e", Msg: pl("e128", 128, 2+3+2)}}},
			},
			Faults:  Faults{Cut: true},
			Horizon: 1500,
			Final: func(w *World) {
				w.monitorWire()
				w.monitorRequests()
				w.monitorDelivery("C01")
			},
		}
	})
	// a vectored Publish racing the retransmission after a reconnect
	register("writers2", func() *Scenario {
		return &Scenario{
			Config: baseConfig(),
			Actors: []ActorSpec{
				{Name: "reader", Reader: &ReaderSpec{Backoff: true}},
				{Name: "A", Ops: []Op{{Kind: "pub0", Topic: "w/a", Msg: []byte("A-0123456789-payload")}}},
				{Name: "D", Ops: []Op{{Kind: "pub2", Topic: "w/d", Msg: []byte("D-payload")}, {Kind: "pub1", Topic: "w/e", Msg: []byte("E-payload")}}},
			},
			Faults:  Faults{Cut: true, NoResponse: true, WriteCuts: cutsEdge, WriteTimeout: true, WriteErr: true},
			Horizon: 1500,
			Final: func(w *World) {
				w.monitorWire()
				w.monitorRequests()
			},
		}
	})
	register("wedge", func() *Scenario {
		return &Scenario{
			Config: baseConfig(),
			Actors: []ActorSpec{
				{Name: "reader", Reader: &ReaderSpec{Backoff: true}},
				{Name: "A", Ops: []Op{{Kind: "pub0", Topic: "w/a", Msg: []byte("A-payload")}, {Kind: "ping"}}},
				{Name: "B", Ops: []Op{{Kind: "sub", Filters: []string{"w/b"}}}},
				{Name: "D", Ops: []Op{{Kind: "pub2", Topic: "w/d", Msg: []byte("D-payload")}, {Kind: "pub1", Topic: "w/e", Msg: []byte("E-payload")}}},
			},
			Inbound: []InMsg{{QoS: 1, ID: 7, Topic: "in/1", Body: []byte("inbound-1")}, {QoS: 2, ID: 8, Topic: "in/2", Body: []byte("inbound-2")}},
			Faults: Faults{WriteCuts: cutsEdge, WriteTimeout: true, WriteErr: true, WriteLost: true, NoResponse: true, Cut: true, CutDrop: true,
				ReadErr: true, DialErr: true, DialBlock: true, CutHalf: true, Connacks: [][]byte{{0x20, 2, 0, 3}, {0x20, 2, 0}}},
			Hostile: [][]byte{{0xf0, 0}},
			Horizon: 2500,
			Final: func(w *World) {
				w.monitorWire()
				w.monitorProgress()
				w.monitorBackoff()
				w.monitorRequests()
			},
		}
	})
	// the inbound messages arrive right after the CONNACK: the read routine owes
	// acknowledgements while the writers are still at work
	// no PauseTimeout, and the peer stops reading while a request is being
	// written: only the read routine's Close can release that writer, and it
	// has to come before the read routine waits for the write token
	register("wedgeblock", func() *Scenario {
		s := scenarios["wedge"]()
		s.Config.PauseTimeout = 0
		s.Faults = Faults{WriteBlock: true, ReadErr: true, CutHalf: true}
		s.Inbound = nil // a read routine that owes an acknowledgement queues up behind the writer before it sees any failure
		return s
	})
	// an inbound message larger than the read buffer whose processing fails
	// (marker Load/Save error, connection cut inside it): what the failure
	// leaves of the BigMessage state must not reach ReadBackoff or the next
	// connection
	register("wedgebig", func() *Scenario {
		s := scenarios["wedge"]()
		s.ReadBuf = 64
		s.Actors = []ActorSpec{
			{Name: "reader", Reader: &ReaderSpec{Backoff: true, ReadBig: true}},
			{Name: "A", Ops: []Op{{Kind: "ping"}, {Kind: "sub", Filters: []string{"w/b"}}}},
		}
		s.Inbound = []InMsg{
			{QoS: 2, ID: 8, Topic: "in/2", Body: pay("big-q2", 90)},
			{QoS: 1, ID: 7, Topic: "in/1", Body: []byte("inbound-1")},
		}
		s.Faults = Faults{Cut: true, CutDrop: true, ReadErr: true, BrokerResend: true, Store: map[string]bool{"load": true, "save": true}}
		s.Hostile = nil
		return s
	})
	register("wedgeburst", func() *Scenario {
		s := scenarios["wedge"]()
		s.Burst = true
		return s
	})
	register("reqresp", func() *Scenario {
		return &Scenario{
			Config:   baseConfig(),
			Volatile: true,
			Actors: []ActorSpec{
				{Name: "reader", Reader: &ReaderSpec{Backoff: true}},
				{Name: "A", Ops: []Op{{Kind: "sub", Filters: []string{"f/1", "f/2"}, Quit: quitLater}}},
				{Name: "B", Ops: []Op{{Kind: "sub1", Filters: []string{"f/3"}}, {Kind: "unsub", Filters: []string{"f/1"}}}},
				{Name: "C", Ops: []Op{{Kind: "ping"}}},
				{Name: "D", Ops: []Op{{Kind: "ping", Quit: quitLater}}},
			},
			SubFail: func(f string) bool { return f == "f/2" },
			Faults:  Faults{Cut: true, CutDrop: true, CutHalf: true, WriteCuts: cutsEdge, WriteErr: true, NoResponse: true},
			Hostile: [][]byte{{0xf0, 0}},
			Horizon: 2000,
			Final: func(w *World) {
				w.monitorWire()
				w.monitorRequests()
			},
		}
	})
	// an abandoned Ping leaves its PINGRESP outstanding; the next Ping of the
	// same goroutine meets it at any stage of its own submission
	register("pingpair", func() *Scenario {
		return &Scenario{
			Config:   baseConfig(),
			Volatile: true,
			Actors: []ActorSpec{
				{Name: "reader", Reader: &ReaderSpec{Backoff: true}},
				{Name: "E", Ops: []Op{{Kind: "ping", Quit: quitLater}, {Kind: "ping"}, {Kind: "ping", Quit: quitLater}}},
				{Name: "A", Ops: []Op{{Kind: "pub0", Topic: "p/a", Msg: []byte("A-payload")}}},
			},
			Faults:  Faults{WriteCuts: cutsEdge, WriteErr: true, WriteTimeout: true, NoResponse: true, Cut: true},
			Horizon: 2000,
			Final: func(w *World) {
				w.monitorWire()
				w.monitorRequests()
			},
		}
	})
	mkShutdown := func(closers []ActorSpec, lazy bool) func() *Scenario {
		return func() *Scenario {
			actors := []ActorSpec{
				{Name: "reader", Reader: &ReaderSpec{Backoff: true}},
				{Name: "A", Ops: []Op{{Kind: "sub", Filters: []string{"s/1"}}}},
				{Name: "B", Ops: []Op{{Kind: "ping"}}},
				{Name: "P", Ops: []Op{{Kind: "pub1", Topic: "s/p", Msg: []byte("P-payload")}, {Kind: "pub0", Topic: "s/q", Msg: []byte("Q-payload")}}},
			}
			actors = append(actors, closers...)
			return &Scenario{
				Config:        baseConfig(),
				Actors:        actors,
				Faults:        Faults{DialBlock: true, NoResponse: true, Cut: true},
				Horizon:       2000,
				StepCheck:     stepSignals,
				LazyExchanges: lazy,
				Final: func(w *World) {
					w.monitorWire()
					w.monitorShutdown()
				},
			}
		}
	}
	register("shutdownbig", func() *Scenario {
		s := mkShutdown([]ActorSpec{{Name: "X", Ops: []Op{{Kind: "close"}}}}, false)()
		s.ReadBuf = 64
		s.Inbound = []InMsg{{QoS: 0, Topic: "big/0", Body: pay("big-unread", 150)}, {QoS: 1, ID: 3, Topic: "big/1", Body: pay("big-q1", 100)}}
		s.Actors = []ActorSpec{
			{Name: "reader", Reader: &ReaderSpec{Backoff: true, ReadBig: false}},
			{Name: "P", Ops: []Op{{Kind: "pub1", Topic: "s/p", Msg: []byte("P-payload")}}},
			{Name: "X", Ops: []Op{{Kind: "close"}}},
		}
		return s
	})
	register("shutdown1", mkShutdown([]ActorSpec{{Name: "X", Ops: []Op{{Kind: "close"}}}}, false))
	register("shutdown1lazy", mkShutdown([]ActorSpec{{Name: "X", Ops: []Op{{Kind: "close"}}}}, true))
	register("shutdown2", mkShutdown([]ActorSpec{{Name: "X", Ops: []Op{{Kind: "disc"}}}, {Name: "Y", Ops: []Op{{Kind: "close"}}}}, false))
	// Disconnect on its own: no Close comes to the rescue of a Disconnect that waits
	// and no PauseTimeout ends a blocked dial or a withheld CONNACK either
	register("shutdown4", func() *Scenario {
		s := mkShutdown([]ActorSpec{{Name: "X", Ops: []Op{{Kind: "disc"}}}}, false)()
		s.Config.PauseTimeout = 0
		return s
	})
	// a writer stuck on a peer that stopped reading, no PauseTimeout: only the
	// closing call can release it, and Disconnect has to do so when its quit fires
	register("shutdown5", func() *Scenario {
		s := mkShutdown([]ActorSpec{{Name: "X", Ops: []Op{{Kind: "disc", Quit: quitLater}}}}, false)()
		s.Config.PauseTimeout = 0
		s.Faults = Faults{WriteBlock: true}
		return s
	})
	// Close after a connect attempt that got as far as the retransmission: the
	// connection of that attempt is the client's to close
	register("shutdown6", func() *Scenario {
		s := mkShutdown([]ActorSpec{{Name: "X", Ops: []Op{{Kind: "close"}}}}, false)()
		s.Actors = []ActorSpec{
			{Name: "reader", Reader: &ReaderSpec{Backoff: true}},
			{Name: "P", Ops: []Op{{Kind: "pub2", Topic: "s/p", Msg: []byte("P-payload")}, {Kind: "pub1", Topic: "s/q", Msg: []byte("Q-payload")}}},
			{Name: "X", Ops: []Op{{Kind: "close"}}},
		}
		s.Faults = Faults{NoResponse: true, Cut: true, WriteCuts: cutsEdge, WriteErr: true, WriteTimeout: true}
		return s
	})
	register("shutdown3", mkShutdown([]ActorSpec{{Name: "X", Ops: []Op{{Kind: "disc", Quit: quitLater}}}, {Name: "Y", Ops: []Op{{Kind: "disc", Quit: quitClosed}}}, {Name: "Z", Ops: []Op{{Kind: "close"}}}}, true))
}

func init() {
	register("errclass", func() *Scenario {
		return &Scenario{
			Config: baseConfig(),
			Actors: []ActorSpec{
				{Name: "reader", Reader: &ReaderSpec{Backoff: true}},
				{Name: "A", Ops: []Op{{Kind: "pub0", Topic: "e/a", Msg: []byte("A-payload"), Quit: quitLater}, {Kind: "pub0r", Topic: "e/b", Msg: []byte("B-payload"), Quit: quitClosed}}},
				{Name: "B", Ops: []Op{{Kind: "sub", Filters: []string{"e/1", "e/2"}, Quit: quitLater}, {Kind: "unsub", Filters: []string{"e/1"}, Quit: quitOpen}}},
				{Name: "C", Ops: []Op{{Kind: "ping", Quit: quitLater}, {Kind: "pub1", Topic: "e/c", Msg: []byte("C-payload")}, {Kind: "pub2r", Topic: "e/d", Msg: []byte("D-payload")}}},
				{Name: "X", Ops: []Op{{Kind: "disc", Quit: quitOpen}}},
			},
			SubFail: func(f string) bool { return f == "e/2" },
			Faults: Faults{WriteCuts: cutsEdge, WriteErr: true, WriteTimeout: true, NoResponse: true, Cut: true, CloseErr: true,
				Store: map[string]bool{"save": true}, DialErr: true},
			Horizon: 2500,
			Final: func(w *World) {
				w.monitorWire()
				w.monitorRequests()
				w.monitorDelivery("C01")
			},
		}
	})
}
