package mc

import (
	"bytes"
	"fmt"
	"sort"
	"strings"
)

// pendingAt lists the packets a clean history left in a store snapshot, in the
// order the adopted client has to retransmit them: at-least-once PUBLISHes,
// then PUBRELs, then exactly-once PUBLISHes, each in acceptance order.
type pend struct {
	typ int
	id  uint16
	raw []byte
	ord int // acceptance order of the message (global op order)
}

func (w *World) opOrder(p *Packet) int {
	n := 0
	for _, a := range w.actors {
		for i := range a.spec.Ops {
			op := &a.spec.Ops[i]
			if strings.HasPrefix(op.Kind, "pub") && op.Topic == p.Topic && bytes.Equal(op.Msg, p.Body) {
				return a.gen*1000 + n
			}
			n++
		}
	}
	return -1
}

// acceptOrder returns the position of the successful Save of a PUBLISH with
// this identifier that is the latest before log index upto.
func (w *World) saveIndex(id uint16, upto int) int {
	at := -1
	for i, e := range w.log[:upto] {
		if e.K == "store" && e.S == "save" && e.R == "" && e.N == int(id) {
			if pkt, _, ok := refDecodeValue(e.B); ok && len(pkt) > 0 && pkt[0]>>4 == tPUBLISH {
				at = i
			}
		}
	}
	return at
}

func (w *World) pendingOf(snap map[uint][]byte, upto int) (list []pend, bad []string) {
	var q1, rel, q2 []pend
	for k, v := range snap {
		if k == 0 || k&(1<<16) != 0 {
			continue
		}
		pkt, _, ok := refDecodeValue(v)
		if !ok || len(pkt) == 0 {
			bad = append(bad, fmt.Sprintf("record %#x does not decode", k))
			continue
		}
		pd := pend{typ: int(pkt[0] >> 4), id: uint16(k), raw: pkt, ord: w.saveIndex(uint16(k), upto)}
		switch {
		case pd.typ == tPUBLISH && k&0xc000 == 0x8000:
			q1 = append(q1, pd)
		case pd.typ == tPUBLISH && k&0xc000 == 0xc000:
			q2 = append(q2, pd)
		case pd.typ == tPUBREL:
			rel = append(rel, pd)
		default:
			bad = append(bad, fmt.Sprintf("record %#x holds packet type %d", k, pd.typ))
		}
	}
	for _, l := range [][]pend{q1, rel, q2} {
		sort.Slice(l, func(i, j int) bool { return l[i].ord < l[j].ord })
		list = append(list, l...)
	}
	return list, bad
}

// monitorRestart checks C02 on every generation that was adopted.
func (w *World) monitorRestart() {
	for i, e := range w.log {
		if e.K == "adopt-warn" {
			w.Violate("C02", "adopt-warning", "AdoptSession warned after a clean history: %s", e.S)
		}
		_ = i
	}
	// per crash: the first accepted connection of the next generation
	for _, cs := range w.crashSnaps {
		exp, bad := w.pendingOf(cs.store, cs.logIdx)
		for _, b := range bad {
			w.Violate("C02", "snapshot-undecodable", "crash at step %d: %s", cs.step, b)
		}
		// connections dialled by generation cs.gen+1
		var first *simConn
		for _, c := range w.conns {
			if c.gen == cs.gen+1 && c.bk.connected {
				first = c
				break
			}
		}
		if first == nil {
			continue
		}
		pkts, _, err := wirePackets(first)
		if err != nil {
			continue // C08's business
		}
		// per level: at-least-once PUBLISHes; PUBRELs followed by exactly-once PUBLISHes
		for lvl := 1; lvl <= 2; lvl++ {
			var got []*Packet
			for _, p := range pkts {
				if p.Type == tPUBLISH && p.QoS == lvl || p.Type == tPUBREL && lvl == 2 {
					got = append(got, p)
				}
			}
			var want []pend
			for _, pd := range exp {
				if pd.typ == tPUBLISH && int(pd.raw[0]>>1&3) == lvl || pd.typ == tPUBREL && lvl == 2 {
					want = append(want, pd)
				}
			}
			for j, pd := range want {
				if j >= len(got) {
					if !first.dead && !first.closed && w.quiet && first == w.liveConn() {
						w.Violate("C02", "resume-missing", "generation %d: pending %s %#04x was not retransmitted on the first connection (got %d of %d)", cs.gen+1, typeNames[pd.typ], pd.id, len(got), len(want))
					}
					break
				}
				g := got[j]
				if g.Type != pd.typ || g.ID != pd.id {
					w.Violate("C02", "resume-order", "generation %d level %d: retransmission %d is %s, want %s %#04x (pending list %s)", cs.gen+1, lvl, j, g, typeNames[pd.typ], pd.id, pendStr(want))
					break
				}
				if g.Type == tPUBLISH {
					want := clone(pd.raw)
					have := clone(g.Raw)
					want[0] |= 8
					have[0] |= 8
					if !bytes.Equal(want, have) {
						w.Violate("C02", "resume-content", "generation %d: retransmitted PUBLISH %#04x differs from the stored packet", cs.gen+1, pd.id)
					}
				}
			}
		}
	}
	// identifiers of new publishes never collide with a pending one
	type live struct{ id int }
	pending := map[int]bool{}
	for _, e := range w.log {
		if e.K != "store" || e.R != "" || e.N == 0 || e.N >= 1<<16 {
			continue
		}
		switch e.S {
		case "save":
			pkt, _, ok := refDecodeValue(e.B)
			if ok && len(pkt) > 0 && pkt[0]>>4 == tPUBLISH {
				if pending[e.N] {
					w.Violate("C17", "identifier-reused-in-flight", "PUBLISH saved under %#04x while that identifier is still in flight", e.N)
					if e.N >= 0xc000 {
						w.Violate("C03", "identifier-reused-before-pubcomp", "exactly-once identifier %#04x given to another message before its PUBCOMP", e.N)
					}
				}
				pending[e.N] = true
			}
		case "delete":
			delete(pending, e.N)
		}
	}
}

func pendStr(l []pend) string {
	s := ""
	for _, p := range l {
		s += fmt.Sprintf("%s:%#04x ", typeNames[p.typ], p.id)
	}
	return s
}

// monitorAllDelivered: at quiescence of the last generation every message
// accepted by any generation reached the broker; exactly-once ones once.
func (w *World) monitorAllDelivered(prop string) {
	if w.horizonHit {
		w.Violate(prop, "no-stabilisation", "execution did not become quiet within %d steps", w.step)
		return
	}
	if !w.quiet {
		return
	}
	for _, a := range w.actors {
		for i := range a.results {
			r := &a.results[i]
			if !strings.HasPrefix(r.Op.Kind, "pub") || r.Op.Kind[3] == '0' || r.Err != nil {
				continue
			}
			op := &a.spec.Ops[r.Idx]
			n := w.forwards(op)
			if n == 0 {
				w.Violate(prop, "accepted-never-forwarded", "gen %d %s op %d (%s %q) was accepted but never reached the broker", a.gen, a.spec.Name, r.Idx, op.Kind, op.Msg)
			}
			if op.Kind[3] == '2' && n > 1 {
				w.Violate("C03", "exactly-once-forwarded-twice", "gen %d %s op %d (%q) forwarded %d times", a.gen, a.spec.Name, r.Idx, op.Msg, n)
			}
			if a.gen == w.gen && !r.X.closed {
				w.Violate(prop, "exchange-never-closed", "gen %d %s op %d: exchange still open at quiescence; errors so far %v", a.gen, a.spec.Name, r.Idx, r.X.errs)
			}
		}
	}
	for k, v := range w.records() {
		if k != 0 && k&(1<<16) == 0 {
			w.Violate(prop, "record-left-behind", "outbound record %#x still stored at quiescence (%d bytes)", k, len(v))
		}
	}
}

func init() {
	// the pending ranges of both levels straddle the 14-bit wrap at every restart
	register("restartwrap", func() *Scenario {
		s := scenarios["restart"]()
		s.Preset = true
		s.PresetSeq = [2]uint{0x3fff, 0x3fff}
		s.Config.AtLeastOnceMax, s.Config.ExactlyOnceMax = 3, 3
		s.Actors[1].Ops = []Op{
			{Kind: "pub1", Topic: "t/1", Msg: []byte("m1-aaaa")},
			{Kind: "pub2", Topic: "t/2", Msg: []byte("m2-bbbb")},
			{Kind: "pub1", Topic: "t/3", Msg: []byte("m3-cccc")},
			{Kind: "pub2", Topic: "t/4", Msg: []byte("m4-dddd")},
		}
		s.Gens[0][1].Ops = []Op{
			{Kind: "pub2", Topic: "t/15", Msg: []byte("m15-eee")}, // (names no other generation uses: monitors find identifiers by content)
			{Kind: "pub1", Topic: "t/16", Msg: []byte("m16-fff")},
		}
		// acknowledgements of the first generation are withheld: everything stays pending
		var w0 *World
		s.Init = func(w *World) { w0 = w }
		s.Mute = func(p *Packet) bool { return w0 != nil && w0.gen == 0 && p.Type == tPUBLISH }
		prev := s.Final
		s.Final = func(w *World) {
			if w.gen == 0 {
				w.monitorWire() // nothing completes while the acknowledgements are withheld
				return
			}
			prev(w)
			w.monitorOrder()
			w.monitorQoS2Out() // C03 at the wrap: PUBREL 0xffff, then PUBLISH 0xc000
		}
		return s
	})
	// publishers of both levels at once (their Saves may overlap), the read
	// routine saving PUBRELs in between, then a stop
	register("restart2p", func() *Scenario {
		s := scenarios["restart"]()
		rd := ActorSpec{Name: "reader", Reader: &ReaderSpec{Backoff: true}}
		s.Actors = []ActorSpec{rd,
			{Name: "A", Ops: []Op{{Kind: "pub1", Topic: "t/1", Msg: []byte("m1-aaaa")}, {Kind: "pub1", Topic: "t/2", Msg: []byte("m2-aaaa")}}},
			{Name: "B", Ops: []Op{{Kind: "pub2", Topic: "u/1", Msg: []byte("n1-bbbb")}, {Kind: "pub2", Topic: "u/2", Msg: []byte("n2-bbbb")}, {Kind: "pub2", Topic: "u/3", Msg: []byte("n3-bbbb")}}},
		}
		s.Gens = [][]ActorSpec{{rd, {Name: "A", Ops: []Op{{Kind: "pub1", Topic: "t/3", Msg: []byte("m3-aaaa")}}}}, {rd}}
		// final acknowledgements of the first generation are withheld: records stay
		var w0 *World
		s.Init = func(w *World) { w0 = w }
		s.Mute = func(p *Packet) bool {
			return w0 != nil && w0.gen == 0 && (p.Type == tPUBREL || p.Type == tPUBLISH && p.QoS == 1)
		}
		prev := s.Final
		s.Final = func(w *World) {
			if w.gen == 0 {
				w.monitorWire()
				return
			}
			prev(w)
		}
		s.Faults = Faults{Crash: true}
		return s
	})
	// the same history over mqtt.FileSystem on the in-memory file system
	register("restartfs", func() *Scenario {
		s := scenarios["restart"]()
		s.FSStore = true
		s.Faults = Faults{Crash: true, Cut: true}
		// the records of the second generation are shorter than those of the
		// first: what a Save interrupted by the stop left behind under the
		// same key must not show through
		s.Gens[0][1].Ops = []Op{
			{Kind: "pub2", Topic: "t/4", Msg: []byte("m4")},
			{Kind: "pub1", Topic: "t/5", Msg: []byte("m5")},
		}
		return s
	})
	// the same three generations judged by what the application was promised
	// (C01: every accepted message reaches the broker and its exchange closes;
	// C05: in submission order): records of two generations are pending side
	// by side at the second stop
	register("restartdeliver", func() *Scenario {
		s := scenarios["restart"]()
		s.Faults = Faults{Crash: true}
		s.Final = func(w *World) {
			w.monitorWire()
			w.monitorAllDelivered("C01")
			w.monitorExchangeOrder("C05")
			w.monitorOrder()
		}
		return s
	})
	register("restart", func() *Scenario {
		return &Scenario{
			Config: baseConfig(),
			Actors: []ActorSpec{
				{Name: "reader", Reader: &ReaderSpec{Backoff: true}},
				{Name: "A", Ops: []Op{
					{Kind: "pub1", Topic: "t/1", Msg: []byte("m1-aaaa")},
					{Kind: "pub2", Topic: "t/2", Msg: []byte("m2-bbbb")},
					{Kind: "pub2", Topic: "t/3", Msg: []byte("m3-cccc")},
				}},
			},
			Gens: [][]ActorSpec{
				{
					{Name: "reader", Reader: &ReaderSpec{Backoff: true}},
					{Name: "A", Ops: []Op{
						{Kind: "pub2", Topic: "t/4", Msg: []byte("m4-dddd")},
						{Kind: "pub1", Topic: "t/5", Msg: []byte("m5-eeee")},
					}},
				},
				{
					{Name: "reader", Reader: &ReaderSpec{Backoff: true}},
					{Name: "A", Ops: []Op{
						{Kind: "pub1", Topic: "t/6", Msg: []byte("m6-ffff")},
						{Kind: "pub2", Topic: "t/7", Msg: []byte("m7-gggg")},
					}},
				},
				{
					{Name: "reader", Reader: &ReaderSpec{Backoff: true}},
				},
			},
			Faults:  Faults{Crash: true, Cut: true, NoResponse: true, WriteLost: true},
			Horizon: 1500,
			Final: func(w *World) {
				w.monitorWire()
				w.monitorRestart()
				w.monitorAllDelivered("C02")
				w.monitorExchangeOrder("C02")
			},
		}
	})
}
