package mc

// Simulated environment: Dialer, net.Conn and Persistence whose every answer
// is decided by the scheduler.

import (
	"context"
	"errors"
	"io"
	"net"
	"sort"
	"time"
)

type envReq struct {
	op   string // read write close dial load save delete list
	conn *simConn
	buf  []byte
	key  uint
	val  []byte
	bufs net.Buffers // save: flattened at perform time
	ctx  context.Context
	// answer
	n      int
	err    error
	out    *simConn
	data   []byte
	keys   []uint
	block  bool // dial: wait for ctx.Done
	parkAt time.Time
}

type simTimeout struct{}

func (simTimeout) Error() string   { return "sim: i/o timeout" }
func (simTimeout) Timeout() bool   { return true }
func (simTimeout) Temporary() bool { return true }

var errSimPipe = errors.New("sim: broken pipe")
var errSimReset = errors.New("sim: connection reset by peer")
var errSimDial = errors.New("sim: dial refused")
var errSimStore = errors.New("sim: persistence failure")
var errTeardown = errors.New("sim: world torn down")

type simConn struct {
	w   *World
	id  int
	gen int
	// broker -> client bytes not yet read
	in []byte
	// client -> broker log
	out       []byte
	brokerPos int  // bytes of out consumed by the broker
	lost      int  // bytes of out (suffix) that never reached the broker
	closed    bool // closed by the client
	dead      bool // cut by network or broker
	rdl, wdl  time.Time
	nRead     int    // total bytes handed to the client
	sentIn    []byte // everything the broker ever queued (for monitors)
	bk        *brokerConn
	// writes: offsets in out where each Write call started (for monitors)
	closeErr  error
	stallNext bool
	halfDead  bool
	wblock    bool // the peer stopped reading
	sinceRdl  int  // bytes handed to the client since it last set a read deadline
}

func (c *simConn) String() string { return "c" + itoa(c.id) }

func itoa(n int) string {
	if n == 0 {
		return "0"
	}
	neg := n < 0
	if neg {
		n = -n
	}
	var b [20]byte
	i := len(b)
	for n > 0 {
		i--
		b[i] = byte('0' + n%10)
		n /= 10
	}
	if neg {
		i--
		b[i] = '-'
	}
	return string(b[i:])
}

func (c *simConn) Read(p []byte) (int, error) {
	s := c.w.sch
	t := s.cur()
	if s.passThrough(t) {
		return 0, c.endErr()
	}
	r := &envReq{op: "read", conn: c, buf: p, parkAt: time.Now()}
	t.env = r
	s.park(t, "conn.Read", kindEnv)
	if s.passThrough(t) && r.err == nil && r.n == 0 {
		return 0, c.endErr()
	}
	return r.n, r.err
}

// endErr is what a read gets once the world is being taken down: a connection
// the client closed itself reports just that, like a real one.
func (c *simConn) endErr() error {
	if c.closed {
		return net.ErrClosed
	}
	return io.EOF
}

func (c *simConn) Write(p []byte) (int, error) {
	s := c.w.sch
	t := s.cur()
	if s.passThrough(t) {
		return 0, io.ErrClosedPipe
	}
	r := &envReq{op: "write", conn: c, buf: p}
	t.env = r
	s.park(t, "conn.Write", kindEnv)
	if s.passThrough(t) && r.err == nil && r.n == 0 {
		return 0, io.ErrClosedPipe
	}
	return r.n, r.err
}

func (c *simConn) Close() error {
	s := c.w.sch
	if s.isRoot() {
		c.closed = true
		return nil
	}
	t := s.cur()
	if s.passThrough(t) {
		c.closed = true
		return nil
	}
	r := &envReq{op: "close", conn: c}
	t.env = r
	s.park(t, "conn.Close", kindEnv)
	if s.passThrough(t) {
		c.closed = true
	}
	return r.err
}

func (c *simConn) LocalAddr() net.Addr           { return simAddr{} }
func (c *simConn) RemoteAddr() net.Addr          { return simAddr{} }
func (c *simConn) SetDeadline(t time.Time) error { c.rdl, c.wdl = t, t; return nil }
func (c *simConn) SetReadDeadline(t time.Time) error {
	c.rdl = t
	if !t.IsZero() {
		c.sinceRdl = 0
	}
	return nil
}
func (c *simConn) SetWriteDeadline(t time.Time) error {
	c.wdl = t
	return nil
}

type simAddr struct{}

func (simAddr) Network() string { return "sim" }
func (simAddr) String() string  { return "sim" }

// dial is the Config.Dialer of every client in the world.
func (w *World) dial(ctx context.Context) (net.Conn, error) {
	s := w.sch
	if s.isRoot() {
		return nil, errTeardown
	}
	t := s.cur()
	if s.passThrough(t) {
		return nil, errTeardown
	}
	r := &envReq{op: "dial", ctx: ctx}
	t.env = r
	s.park(t, "dial", kindEnv)
	if s.passThrough(t) && r.out == nil && r.err == nil {
		return nil, errTeardown
	}
	if r.block {
		<-ctx.Done()
		return nil, ctx.Err()
	}
	if r.err != nil {
		return nil, r.err
	}
	return r.out, nil
}

// simStore is a Persistence over a map; operations are environment gates.
type simStore struct {
	w *World
	m map[uint][]byte
}

func (st *simStore) gate(op string, key uint, val []byte) *envReq {
	s := st.w.sch
	if s.isRoot() {
		return nil
	}
	t := s.cur()
	if s.passThrough(t) {
		return &envReq{err: errTeardown}
	}
	r := &envReq{op: op, key: key, val: val}
	t.env = r
	s.park(t, "store."+op, kindEnv)
	if s.passThrough(t) && !r.done() {
		return &envReq{err: errTeardown}
	}
	return r
}

func (r *envReq) done() bool { return r.n == 1 }

func flat(v net.Buffers) []byte {
	var b []byte
	for _, p := range v {
		b = append(b, p...)
	}
	if b == nil {
		b = []byte{}
	}
	return b
}

func (st *simStore) Load(key uint) ([]byte, error) {
	r := st.gate("load", key, nil)
	if r == nil { // root: direct
		return clone(st.m[key]), nil
	}
	return r.data, r.err
}

func (st *simStore) Save(key uint, value net.Buffers) error {
	if st.w.sch.isRoot() {
		b := flat(value)
		st.m[key] = b
		st.w.logStore("save", key, b, nil)
		return nil
	}
	// the buffers are read when the store gets to perform the operation, not
	// when it is called: a Persistence may take its time (FileSystem writes
	// buffer by buffer), and simultaneous calls are permitted
	r := st.gateSave(key, value)
	return r.err
}

func (st *simStore) gateSave(key uint, value net.Buffers) *envReq {
	s := st.w.sch
	t := s.cur()
	if s.passThrough(t) {
		return &envReq{err: errTeardown}
	}
	r := &envReq{op: "save", key: key, bufs: value}
	t.env = r
	s.park(t, "store.save", kindEnv)
	if s.passThrough(t) && !r.done() {
		return &envReq{err: errTeardown}
	}
	return r
}

func (st *simStore) Delete(key uint) error {
	r := st.gate("delete", key, nil)
	if r == nil {
		delete(st.m, key)
		st.w.logStore("delete", key, nil, nil)
		return nil
	}
	return r.err
}

func (st *simStore) List() ([]uint, error) {
	r := st.gate("list", 0, nil)
	if r == nil {
		return st.keys(), nil
	}
	return r.keys, r.err
}

func (st *simStore) keys() []uint {
	keys := make([]uint, 0, len(st.m))
	for k := range st.m {
		keys = append(keys, k)
	}
	sort.Slice(keys, func(i, j int) bool { return keys[i] < keys[j] })
	return keys
}

func (st *simStore) copy(w *World) *simStore {
	n := &simStore{w: w, m: map[uint][]byte{}}
	for k, v := range st.m {
		n.m[k] = clone(v)
	}
	return n
}

func clone(b []byte) []byte {
	if b == nil {
		return nil
	}
	return append([]byte{}, b...)
}
