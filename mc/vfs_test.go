package mc

// In-memory file system behind the fileSystem store's os calls (the
// instrumenter routes os.Create/Open/Rename/Remove/ReadFile through
// mqtt.VerifOS). Process-stop semantics: what was written is there.

import (
	"errors"
	"fmt"
	"os"
	"sort"
	"strings"
	"syscall"

	"github.com/pascaldekloe/mqtt"
)

type inode struct {
	data   []byte
	synced bool
	id     int
}

type vfsStop struct{}

type vfs struct {
	names   map[string]*inode
	log     []string
	nextIno int
	nOps    int
	// plan
	stopAt    int  // stop the process at the entry of this operation (1-based); 0 = never
	stopExit  bool // … at its exit instead
	stopBytes int  // for a write: bytes that still make it (-1 = whole op)
	failAt    int  // inject an error at this operation
	failBytes int  // for a write: bytes accepted before the error
	stopped   bool
	failed    bool
	gate      func(op string) // scheduler hook (concurrent scenarios)
	dead      func() bool     // the calling goroutine belongs to a stopped process
	onCommit  func(op, name string, val []byte)
	opKinds   []string
}

func newVFS() *vfs { return &vfs{names: map[string]*inode{}, stopBytes: -1} }

func notExist(op, name string) error {
	return &os.PathError{Op: op, Path: name, Err: syscall.ENOENT}
}

var errVFS = errors.New("vfs: injected I/O error")
var errVFSStopped = errors.New("vfs: process stopped")

// step accounts one primitive operation; it returns an injected error, or
// panics with vfsStop when the process stops here.
func (v *vfs) step(kind string) (inject bool) {
	if v.dead != nil && v.dead() {
		return true // I/O of a stopped process fails without effect
	}
	if v.gate != nil {
		v.gate(kind)
	}
	if v.dead != nil && v.dead() {
		return true
	}
	v.nOps++
	v.opKinds = append(v.opKinds, kind)
	if v.stopAt == v.nOps && !v.stopExit && kind != "write" {
		v.stopped = true
		panic(vfsStop{})
	}
	if v.failAt == v.nOps && kind != "write" {
		v.failed = true
		return true
	}
	return false
}

func (v *vfs) exit() {
	if v.stopAt == v.nOps && v.stopExit {
		v.stopped = true
		panic(vfsStop{})
	}
}

type vfile struct {
	v          *vfs
	ino        *inode
	name       string
	dir        bool
	open       bool
	off        int
	appendMode bool
}

// put writes p at the descriptor's offset (overwriting, extending).
func (f *vfile) put(p []byte) {
	if f.appendMode {
		f.off = len(f.ino.data)
	}
	for len(f.ino.data) < f.off+len(p) {
		f.ino.data = append(f.ino.data, 0)
	}
	copy(f.ino.data[f.off:], p)
	f.off += len(p)
}

func (f *vfile) Name() string { return f.name }

func (f *vfile) Write(p []byte) (int, error) {
	v := f.v
	if v.stopped {
		return 0, errVFSStopped
	}
	v.step("write")
	n := len(p)
	if v.stopAt == v.nOps && !v.stopExit {
		if v.stopBytes >= 0 && v.stopBytes < n {
			n = v.stopBytes
		}
		if v.stopBytes < 0 {
			n = 0
		}
		f.put(p[:n])
		v.log = append(v.log, fmt.Sprintf("write %s %d of %d (stop)", f.name, n, len(p)))
		v.stopped = true
		panic(vfsStop{})
	}
	if v.failAt == v.nOps {
		n = min(v.failBytes, n)
		f.put(p[:n])
		v.log = append(v.log, fmt.Sprintf("write %s %d of %d (error)", f.name, n, len(p)))
		v.failed = true
		return n, errVFS
	}
	f.put(p)
	f.ino.synced = false
	v.log = append(v.log, fmt.Sprintf("write %s %d", f.name, len(p)))
	v.exit()
	return len(p), nil
}

func (f *vfile) Sync() error {
	v := f.v
	if v.stopped {
		return errVFSStopped
	}
	if v.step("sync") {
		v.log = append(v.log, "sync "+f.name+" (error)")
		return errVFS
	}
	f.ino.synced = true
	v.log = append(v.log, "sync "+f.name)
	v.exit()
	return nil
}

func (f *vfile) Close() error {
	v := f.v
	if v.stopped {
		return errVFSStopped
	}
	inj := v.step("close")
	f.open = false
	v.log = append(v.log, "close "+f.name)
	if inj {
		return errVFS
	}
	v.exit()
	return nil
}

func (f *vfile) Readdirnames(n int) ([]string, error) {
	v := f.v
	if v.stopped {
		return nil, errVFSStopped
	}
	if v.step("readdir") {
		return nil, errVFS
	}
	var names []string
	for name := range v.names {
		if strings.HasPrefix(name, f.name) {
			names = append(names, name[len(f.name):])
		}
	}
	sort.Strings(names)
	v.log = append(v.log, "readdir")
	return names, nil
}

func (v *vfs) table() mqtt.VerifOS {
	return mqtt.VerifOS{
		Create: func(name string) (mqtt.VerifFile, error) {
			if v.stopped {
				return nil, errVFSStopped
			}
			if v.step("create") {
				v.log = append(v.log, "create "+name+" (error)")
				return nil, errVFS
			}
			ino := v.names[name]
			if ino == nil {
				v.nextIno++
				ino = &inode{id: v.nextIno}
				v.names[name] = ino
			} else {
				ino.data = nil
			}
			v.log = append(v.log, "create "+name)
			v.exit()
			return &vfile{v: v, ino: ino, name: name, open: true}, nil
		},
		OpenFile: func(name string, flag int, perm os.FileMode) (mqtt.VerifFile, error) {
			if v.stopped {
				return nil, errVFSStopped
			}
			kind := "open"
			if flag&os.O_CREATE != 0 {
				kind = "create"
			}
			if v.step(kind) {
				v.log = append(v.log, kind+" "+name+" (error)")
				return nil, errVFS
			}
			ino := v.names[name]
			switch {
			case ino == nil && flag&os.O_CREATE == 0:
				return nil, notExist("open", name)
			case ino != nil && flag&os.O_CREATE != 0 && flag&os.O_EXCL != 0:
				return nil, &os.PathError{Op: "open", Path: name, Err: syscall.EEXIST}
			case ino == nil:
				v.nextIno++
				ino = &inode{id: v.nextIno}
				v.names[name] = ino
			}
			if flag&os.O_TRUNC != 0 {
				ino.data = nil
			}
			v.log = append(v.log, kind+" "+name)
			v.exit()
			return &vfile{v: v, ino: ino, name: name, open: true, appendMode: flag&os.O_APPEND != 0}, nil
		},
		WriteFile: func(name string, data []byte, perm os.FileMode) error {
			// open(O_WRONLY|O_CREATE|O_TRUNC), write, close — in place, as os.WriteFile does
			if v.stopped {
				return errVFSStopped
			}
			if v.step("create") {
				return errVFS
			}
			ino := v.names[name]
			if ino == nil {
				v.nextIno++
				ino = &inode{id: v.nextIno}
				v.names[name] = ino
			}
			ino.data = nil
			v.log = append(v.log, "create "+name)
			v.exit()
			f := &vfile{v: v, ino: ino, name: name, open: true}
			if _, err := f.Write(data); err != nil {
				return err
			}
			return f.Close()
		},
		Stat: func(name string) (os.FileInfo, error) {
			if v.names[name] == nil {
				return nil, notExist("stat", name)
			}
			return nil, nil
		},
		Lstat: func(name string) (os.FileInfo, error) {
			if v.names[name] == nil {
				return nil, notExist("lstat", name)
			}
			return nil, nil
		},
		Open: func(name string) (mqtt.VerifFile, error) {
			if v.stopped {
				return nil, errVFSStopped
			}
			if v.step("open") {
				return nil, errVFS
			}
			return &vfile{v: v, name: name, dir: true, open: true}, nil
		},
		Rename: func(oldpath, newpath string) error {
			if v.stopped {
				return errVFSStopped
			}
			if v.step("rename") {
				v.log = append(v.log, "rename "+oldpath+" (error)")
				return errVFS
			}
			ino := v.names[oldpath]
			if ino == nil {
				return notExist("rename", oldpath)
			}
			v.names[newpath] = ino
			delete(v.names, oldpath)
			v.log = append(v.log, "rename "+oldpath+" "+newpath)
			if v.onCommit != nil {
				v.onCommit("save", newpath, clone0(ino.data))
			}
			v.exit()
			return nil
		},
		Remove: func(name string) error {
			if v.stopped {
				return errVFSStopped
			}
			if v.step("remove") {
				v.log = append(v.log, "remove "+name+" (error)")
				return errVFS
			}
			if v.names[name] == nil {
				v.log = append(v.log, "remove "+name+" (absent)")
				return notExist("remove", name)
			}
			delete(v.names, name)
			v.log = append(v.log, "remove "+name)
			if v.onCommit != nil {
				v.onCommit("delete", name, nil)
			}
			v.exit()
			return nil
		},
		ReadFile: func(name string) ([]byte, error) {
			if v.stopped {
				return nil, errVFSStopped
			}
			if v.step("readfile") {
				return nil, errVFS
			}
			ino := v.names[name]
			if ino == nil {
				return nil, notExist("open", name)
			}
			v.log = append(v.log, "readfile "+name)
			return clone0(ino.data), nil
		},
	}
}

func clone0(b []byte) []byte { return append([]byte{}, b...) }

func (v *vfs) clone() *vfs {
	n := newVFS()
	for k, ino := range v.names {
		n.names[k] = &inode{data: clone0(ino.data), synced: ino.synced, id: ino.id}
	}
	return n
}
