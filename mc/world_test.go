package mc

import (
	"context"
	"errors"
	"fmt"
	"io"
	"net"
	"os"
	"sort"
	"strings"
	"testing"
	"testing/synctest"
	"time"

	"github.com/pascaldekloe/mqtt"
)

const tickQuantum = 20 * time.Millisecond

// Cost of one alternative, per deviation class.
type Cost struct {
	P   int8 // preemption: switch away from a thread that could continue
	F   int8 // fault: non-default answer of the environment or broker
	C   int8 // crash: stop + AdoptSession
	S   int8 // free switch: non-default successor after the running thread blocked
	Sel int8 // non-default select priority
	T   int8 // timer fires although other things could run
}

func (a Cost) add(b Cost) Cost {
	return Cost{a.P + b.P, a.F + b.F, a.C + b.C, a.S + b.S, a.Sel + b.Sel, a.T + b.T}
}
func (a Cost) le(b Cost) bool {
	return a.P <= b.P && a.F <= b.F && a.C <= b.C && a.S <= b.S && a.Sel <= b.Sel && a.T <= b.T
}
func (a Cost) zero() bool { return a == Cost{} }
func (a Cost) String() string {
	return fmt.Sprintf("p%d f%d c%d s%d sel%d t%d", a.P, a.F, a.C, a.S, a.Sel, a.T)
}

type alt struct {
	label string
	cost  Cost
	do    func()
}

type Event struct {
	K    string // kind
	T    string // thread
	C    int    // connection
	N    int    // number (key, index)
	B    []byte
	S    string
	R    string
	Step int
	Gen  int
	At   time.Duration // fake time since the first event
	D    string        // for returns of ReadSlices: the write token's state afterwards (down, pending, cN, held, closed)
}

func (e Event) String() string {
	s := fmt.Sprintf("%d g%d %s", e.Step, e.Gen, e.K)
	if e.T != "" {
		s += " " + e.T
	}
	if e.C != 0 {
		s += fmt.Sprintf(" c%d", e.C)
	}
	if e.N != 0 {
		s += fmt.Sprintf(" n=%#x", e.N)
	}
	if e.S != "" {
		s += " " + e.S
	}
	if e.R != "" {
		s += " -> " + e.R
	}
	if e.B != nil {
		if len(e.B) > 48 {
			s += fmt.Sprintf(" [%x… %dB]", e.B[:48], len(e.B))
		} else {
			s += fmt.Sprintf(" [%x]", e.B)
		}
	}
	return s
}

type Violation struct {
	Prop   string
	Sig    string // stable signature (for known findings)
	Detail string
}

type InMsg struct {
	Raw    []byte // a control packet sent verbatim instead of a PUBLISH
	QoS    int
	ID     uint16
	Topic  string
	Body   []byte
	Retain bool
	Dup    bool
}

// Faults selects the alphabet of deviations a scenario explores.
type Faults struct {
	WriteCuts    func(n int) []int // accepted byte counts before a failure
	WriteTimeout bool              // … followed by a deadline expiry (needs a deadline)
	WriteErr     bool              // … followed by a hard error
	WriteLost    bool              // accepted but never delivered; connection dies
	NoResponse   bool              // broker consumes, its responses are lost, connection dies after
	ReadCuts     func(avail int) []int
	ReadEOF      bool // with nothing pending: EOF although not cut (== cut)
	ReadErr      bool // hard read error
	ReadTimeout  bool // deadline expiry is always offered once due; this offers it early (not used)
	Cut          bool // broker side cuts the connection, pending bytes stay readable
	CutDrop      bool // … pending bytes are lost
	CutHalf      bool // the broker closes its side: reads hit EOF, writes still succeed locally and go nowhere
	DialErr      bool
	DialBlock    bool
	Connacks     [][]byte // alternative replies to CONNECT (connection closed after)
	Store        map[string]bool
	Crash        bool
	Tick         bool
	CloseErr     bool
	ReadStall    bool // after a partial delivery the next read with a deadline expires first
	Damage       int  // crash events damage up to this many records of the snapshot
	WriteBlock   bool // the peer stops reading: writes on that connection block until a deadline or a Close
	DamageOnce   bool // stops after the first damaged one leave the store as it is
	BrokerResend bool // the broker retransmits an unacknowledged PUBLISH / repeats PUBREL on the same connection
	Allow        func(w *World, kind string) bool
}

type Scenario struct {
	Name     string
	Config   mqtt.Config
	ClientID string
	Volatile bool
	Actors   []ActorSpec
	Gens     [][]ActorSpec // actors of the generations after a crash
	Inbound  []InMsg
	// InjectOK limits when the broker may send the next scripted message
	InjectOK      func(w *World) bool
	SubFail       func(filter string) bool
	Faults        Faults
	Done          func(w *World) bool
	Final         func(w *World)
	Horizon       int
	IdleTicks     int
	ReadBuf       int
	PipeClose     bool
	PresetSeq     [2]uint
	Preset        bool
	Init          func(w *World) // after client construction, before the first step
	MaxConns      int
	FSStore       bool                 // the Persistence is mqtt.FileSystem over the in-memory file system; every primitive is a gate
	AdoptProp     string               // property an AdoptSession failure is attributed to (default C02)
	LazyExchanges bool                 // the application does not read its exchange channels before the end
	AliasLoad     bool                 // Load returns the stored slice itself, not a copy
	Burst         bool                 // the broker sends the whole inbound script right after CONNACK
	Mute          func(p *Packet) bool // the broker consumes these packets without reacting
	Hostile       [][]byte             // byte strings the broker may send once (one per execution)
	HostileOK     func(w *World) bool
	Key           func(w *World) string // extra state for the pruning key
	StepCheck     func(w *World)        // invariant evaluated at every quiescent state
}

type point struct {
	costs []Cost
	spent Cost // budget spent before this point
}

type World struct {
	spinNow    bool // the only runnable thread loops without blocking and without an observable effect
	lastEvLen  int
	lastEvStep int
	wasOnline  bool
	t0         time.Time
	t          *testing.T
	scn        *Scenario
	sch        *sched
	client     *mqtt.Client
	store      *simStore
	bk         *broker
	conns      []*simConn
	actors     []*actor
	xchs       []*xch
	log        []Event
	logH       uint64
	step       int
	viol       []Violation
	curT       *thread
	gen        int
	warns      []error

	choices []int
	labels  []string
	points  []point
	spent   Cost

	horizonHit  bool
	pruned      bool
	quiet       bool
	toolErr     string
	panics      []string
	trace       bool
	traceOut    []string
	keys        map[uint64]struct{}
	nDial       int
	crashSnaps  []crashSnap
	deliveries  []*Delivery
	damaged     []damage
	fsStore     mqtt.Persistence
	vfs         *vfs
	hostileSent bool
	hostileIdx  int
}

type crashSnap struct {
	step   int
	gen    int
	logIdx int
	store  map[uint][]byte
}

func (w *World) ev(e Event) {
	e.Step, e.Gen = w.step, w.gen
	if w.t0.IsZero() {
		w.t0 = time.Now()
	}
	e.At = time.Since(w.t0) // fake time: deterministic
	w.log = append(w.log, e)
	h := mix(w.logH, e.K)
	h = mix(h, e.T)
	h = mix(h, e.S)
	h = mix(h, e.R)
	h = mix(h, string(e.B))
	h ^= uint64(e.C)<<32 ^ uint64(e.N)
	h *= 1099511628211
	w.logH = h
	if w.trace {
		w.traceOut = append(w.traceOut, "      · "+e.String())
	}
}

func (w *World) logStore(op string, key uint, val []byte, err error) {
	e := Event{K: "store", S: op, N: int(key), B: clone(val)}
	if err != nil {
		e.R = err.Error()
	}
	w.ev(e)
}

func (w *World) Violate(prop, sig, format string, a ...any) {
	w.viol = append(w.viol, Violation{Prop: prop, Sig: sig, Detail: fmt.Sprintf(format, a...)})
}

// records returns the Persistence content by key (map store or file system).
func (w *World) records() map[uint][]byte {
	if !w.scn.FSStore {
		return w.store.m
	}
	m := map[uint][]byte{}
	for name, ino := range w.vfs.names {
		var k uint
		if len(name) == len("/d/")+5 && strings.HasPrefix(name, "/d/") {
			if _, err := fmt.Sscanf(name[3:], "%05x", &k); err == nil {
				m[k] = ino.data
			}
		}
	}
	return m
}

// persistence returns the Persistence handed to the client constructors.
func (w *World) persistence() mqtt.Persistence {
	if !w.scn.FSStore {
		return w.store
	}
	return mqtt.FileSystem("/d/")
}

// mountFS installs v as the file system of the FileSystem store.
func (w *World) mountFS(v *vfs) {
	w.vfs = v
	v.gate = func(op string) {
		if w.sch.isRoot() {
			return
		}
		t := w.sch.cur()
		if w.sch.passThrough(t) {
			return
		}
		w.sch.Gate("fs:" + op)
	}
	v.dead = func() bool {
		if w.sch.isRoot() {
			return false
		}
		t := w.sch.cur()
		w.sch.mu.Lock()
		defer w.sch.mu.Unlock()
		return t.gen < w.sch.gen // a stopped process cannot touch the disk anymore
	}
	v.onCommit = func(op string, name string, val []byte) {
		var k uint
		if len(name) != len("/d/")+5 || !strings.HasPrefix(name, "/d/") {
			return
		}
		if _, err := fmt.Sscanf(name[3:], "%05x", &k); err != nil {
			return
		}
		w.logStore(op, k, val, nil)
	}
	mqtt.VerifSetOS(v.table())
}

func (w *World) liveConn() *simConn {
	if len(w.conns) == 0 {
		return nil
	}
	c := w.conns[len(w.conns)-1]
	if c.closed || c.dead || c.halfDead {
		return nil
	}
	return c
}

func (w *World) closedErr() error {
	if w.scn.PipeClose {
		return io.ErrClosedPipe
	}
	return net.ErrClosed
}

func (w *World) allow(kind string) bool {
	if w.scn.Faults.Allow != nil {
		return w.scn.Faults.Allow(w, kind)
	}
	return true
}

// threadAlts lists what can happen to a parked thread. The first alternative
// is the default; ok=false when the thread has no default continuation.
func (w *World) threadAlts(th *thread) (alts []alt, hasDefault bool) {
	f := &w.scn.Faults
	F := Cost{F: 1}
	run := func() { w.curT = th; w.sch.release(th) }
	switch th.kind {
	case kindApp:
		return []alt{{label: th.name + " " + th.site, do: run}}, true
	case kindSync:
		alts = append(alts, alt{label: th.name + " " + th.site, do: func() { th.selPri = 0; run() }})
		for i := 1; i < th.selN; i++ {
			alts = append(alts, alt{label: fmt.Sprintf("%s %s sel=%d", th.name, th.site, i), cost: Cost{Sel: 1}, do: func() { th.selPri = i; run() }})
		}
		return alts, true
	}
	r := th.env
	now := time.Now()
	switch r.op {
	case "read":
		c := r.conn
		answer := func(label string, cost Cost, n int, err error, after func()) {
			alts = append(alts, alt{label: fmt.Sprintf("%s read c%d %s", th.name, c.id, label), cost: cost, do: func() {
				if n > 0 {
					copy(r.buf, c.in[:n])
					w.ev(Event{K: "read", T: th.name, C: c.id, B: clone(c.in[:n])})
					c.in = c.in[n:]
					c.nRead += n
					c.sinceRdl += n
				} else {
					// N: bytes the client received since it set the deadline that expires now
					w.ev(Event{K: "read", T: th.name, C: c.id, R: errStr(err), N: c.sinceRdl})
				}
				r.n, r.err = n, err
				if after != nil {
					after()
				}
				run()
			}})
		}
		if c.closed {
			answer("closed", Cost{}, 0, w.closedErr(), nil)
			return alts, true
		}
		due := !c.rdl.IsZero() && !now.Before(c.rdl)
		if !c.rdl.IsZero() && !r.parkAt.IsZero() && !r.parkAt.Before(c.rdl) {
			// the deadline had passed before Read was called: a net.Conn fails
			// such a call at once, whatever is waiting to be read
			answer("timeout(expired before the call)", Cost{}, 0, simTimeout{}, nil)
			return alts, true
		}
		if c.stallNext {
			if !c.rdl.IsZero() {
				// the pause chosen earlier outlasts the deadline: nothing arrives,
				// and the read ends when (fake) time has reached the deadline
				if due {
					answer("timeout(stall)", Cost{}, 0, simTimeout{}, func() { c.stallNext = false })
				}
				return alts, true
			}
			c.stallNext = false // no deadline: the pause is invisible
		}
		if len(c.in) > 0 {
			n := min(len(r.buf), len(c.in))
			answer(fmt.Sprintf("%dB", n), Cost{}, n, nil, nil)
			if f.ReadCuts != nil && w.allow("readcut") {
				for _, k := range f.ReadCuts(n) {
					if k > 0 && k < n {
						answer(fmt.Sprintf("%dB of %d", k, n), F, k, nil, nil)
						if f.ReadStall {
							answer(fmt.Sprintf("%dB of %d then stall", k, n), F, k, nil, func() {
								c.stallNext = true
								w.ev(Event{K: "stall", C: c.id})
							})
						}
					}
				}
			}
			if due {
				answer("timeout", F, 0, simTimeout{}, nil)
			}
			if c.dead && f.CutDrop && w.allow("cutdrop") {
				answer("reset", F, 0, errSimReset, func() { c.in = nil })
			}
			return alts, true
		}
		if c.dead || c.halfDead {
			answer("EOF", Cost{}, 0, io.EOF, nil)
			return alts, true
		}
		if due {
			answer("timeout", Cost{}, 0, simTimeout{}, nil)
			return alts, true
		}
		if f.ReadErr && w.allow("readerr") {
			answer("error", F, 0, errSimReset, func() { c.dead = true })
		}
		return alts, false
	case "write":
		c := r.conn
		p := r.buf
		answer := func(label string, cost Cost, n int, err error, mode respMode, lost bool, die bool) {
			alts = append(alts, alt{label: fmt.Sprintf("%s write c%d %dB %s", th.name, c.id, len(p), label), cost: cost, do: func() {
				if n > 0 {
					c.out = append(c.out, p[:n]...)
				}
				w.ev(Event{K: "write", T: th.name, C: c.id, B: clone(p[:n]), N: len(p), R: errStr(err), S: label})
				r.n, r.err = n, err
				if lost {
					c.lost += n
				} else if n > 0 {
					w.bk.consume(c, mode)
				}
				if die {
					c.dead = true
				}
				run()
			}})
		}
		if c.closed {
			answer("closed", Cost{}, 0, w.closedErr(), respMode{}, false, false)
			return alts, true
		}
		if c.dead {
			answer("broken", Cost{}, 0, errSimPipe, respMode{}, false, false)
			return alts, true
		}
		due := !c.wdl.IsZero() && !now.Before(c.wdl)
		if due {
			answer("timeout", Cost{}, 0, simTimeout{}, respMode{}, false, false)
			return alts, true
		}
		if c.halfDead {
			answer("ok(half-closed)", Cost{}, len(p), nil, respMode{}, true, false)
			return alts, true
		}
		if c.wblock {
			// the peer stopped reading: the write waits for its deadline (handled
			// above) or for a Close from another goroutine
			return alts, true
		}
		answer("ok", Cost{}, len(p), nil, respMode{}, false, false)
		// (offered for requesters only: a read routine stuck in its own write
		// without any deadline is where the application asked it to be)
		closing := false // Disconnect's own DISCONNECT: stuck in its write without a deadline, it is where it was asked to be
		for _, a := range w.actors {
			if a.th == th && a.pc < len(a.spec.Ops) && (a.spec.Ops[a.pc].Kind == "disc" || a.spec.Ops[a.pc].Kind == "close") {
				closing = true
			}
		}
		if f.WriteBlock && w.allow("writeblock") && !strings.HasPrefix(th.name, "a:reader") && !closing && c.bk.connected {
			alts = append(alts, alt{label: fmt.Sprintf("c%d peer stops reading (%s blocks in write)", c.id, th.name), cost: F, do: func() {
				w.ev(Event{K: "wblock", T: th.name, C: c.id})
				c.wblock = true
			}})
		}
		if f.WriteCuts != nil && w.allow("writecut") {
			for _, k := range f.WriteCuts(len(p)) {
				if k < 0 || k >= len(p) {
					continue
				}
				if f.WriteTimeout && !c.wdl.IsZero() {
					answer(fmt.Sprintf("%dB+timeout", k), F, k, simTimeout{}, respMode{}, false, false)
				}
				if f.WriteErr {
					answer(fmt.Sprintf("%dB+error", k), F, k, errSimPipe, respMode{}, false, true)
				}
			}
		}
		if f.WriteLost && w.allow("writelost") {
			answer("lost", F, len(p), nil, respMode{}, true, true)
		}
		if f.NoResponse && w.allow("noresponse") {
			answer("noresponse", F, len(p), nil, respMode{drop: true}, false, true)
		}
		if len(f.Connacks) > 0 && len(c.out) == 0 && len(p) > 0 && p[0]>>4 == tCONNECT && w.allow("connack") {
			for _, ca := range f.Connacks {
				answer(fmt.Sprintf("connack=%x", ca), F, len(p), nil, respMode{connack: ca}, false, false)
			}
		}
		return alts, true
	case "close":
		c := r.conn
		alts = append(alts, alt{label: fmt.Sprintf("%s close c%d", th.name, c.id), do: func() {
			w.ev(Event{K: "close", T: th.name, C: c.id})
			c.closed = true
			r.err = nil
			run()
		}})
		if f.CloseErr && w.allow("closeerr") && !c.closed {
			alts = append(alts, alt{label: fmt.Sprintf("%s close c%d +error", th.name, c.id), cost: F, do: func() {
				w.ev(Event{K: "close", T: th.name, C: c.id, R: "error"})
				c.closed = true
				r.err = errSimPipe
				run()
			}})
		}
		return alts, true
	case "dial":
		if err := r.ctx.Err(); err != nil {
			alts = append(alts, alt{label: th.name + " dial ctx-done", do: func() {
				w.ev(Event{K: "dial", T: th.name, R: err.Error()})
				r.err = err
				run()
			}})
			return alts, true
		}
		if w.scn.MaxConns > 0 && len(w.conns) >= w.scn.MaxConns {
			alts = append(alts, alt{label: th.name + " dial refused(max)", do: func() {
				w.ev(Event{K: "dial", T: th.name, R: errSimDial.Error()})
				r.err = errSimDial
				run()
			}})
			return alts, true
		}
		alts = append(alts, alt{label: th.name + " dial ok", do: func() {
			c := &simConn{w: w, id: len(w.conns) + 1, bk: &brokerConn{}, gen: w.gen}
			w.conns = append(w.conns, c)
			w.ev(Event{K: "dial", T: th.name, C: c.id})
			r.out = c
			run()
		}})
		if f.DialErr && w.allow("dialerr") {
			alts = append(alts, alt{label: th.name + " dial error", cost: F, do: func() {
				w.ev(Event{K: "dial", T: th.name, R: errSimDial.Error()})
				r.err = errSimDial
				run()
			}})
		}
		if f.DialBlock && w.allow("dialblock") {
			alts = append(alts, alt{label: th.name + " dial block", cost: F, do: func() {
				w.ev(Event{K: "dial", T: th.name, R: "block"})
				r.block = true
				run()
			}})
		}
		return alts, true
	case "load", "save", "delete", "list":
		st := w.store
		alts = append(alts, alt{label: fmt.Sprintf("%s store.%s %#x", th.name, r.op, r.key), do: func() {
			switch r.op {
			case "load":
				r.data = clone(st.m[r.key])
				if w.scn.AliasLoad {
					r.data = st.m[r.key] // the store's own memory, as the library's in-memory map hands out
				}
			case "save":
				r.val = flat(r.bufs)
				st.m[r.key] = clone(r.val)
			case "delete":
				delete(st.m, r.key)
			case "list":
				r.keys = st.keys()
			}
			r.n = 1
			w.logStore(r.op, r.key, r.val, nil)
			run()
		}})
		if f.Store[r.op] && w.allow("store") {
			alts = append(alts, alt{label: fmt.Sprintf("%s store.%s %#x FAIL", th.name, r.op, r.key), cost: F, do: func() {
				if r.op == "save" {
					r.val = flat(r.bufs)
				}
				r.n = 1
				r.err = errSimStore
				w.logStore(r.op, r.key, r.val, errSimStore)
				run()
			}})
		}
		return alts, true
	}
	panic("unknown env op " + r.op)
}

// threadRank orders the default successor: library helper goroutines first,
// then the read routine, then the requesters.
func threadRank(th *thread) int {
	switch {
	case th.actor == nil:
		return 0
	case th.actor.spec.Reader != nil:
		return 1
	}
	return 2
}

func errStr(err error) string {
	if err == nil {
		return ""
	}
	return err.Error()
}

const fairRun = 60

// menu lists the enabled events in canonical order; index 0 is the default.
func (w *World) menu() []alt {
	var live []*thread
	w.sch.mu.Lock()
	for _, th := range w.sch.threads {
		if !th.done && th.parked && th.gen == w.sch.gen {
			live = append(live, th)
		}
	}
	w.sch.mu.Unlock()
	sort.SliceStable(live, func(i, j int) bool {
		ri, rj := threadRank(live[i]), threadRank(live[j])
		if ri != rj {
			return ri < rj
		}
		return live[i].name < live[j].name
	})

	type entry struct {
		th   *thread
		alts []alt
		def  bool
	}
	var withDef, faultOnly []entry
	curEnabled := false
	spinning := false
	for _, th := range live {
		alts, def := w.threadAlts(th)
		if len(alts) == 0 {
			continue
		}
		e := entry{th, alts, def}
		if def {
			if th == w.curT {
				curEnabled = true
			}
			withDef = append(withDef, e)
		} else {
			faultOnly = append(faultOnly, e)
		}
	}
	// order: running thread first unless it hogs
	if curEnabled {
		for i, e := range withDef {
			if e.th == w.curT {
				copy(withDef[1:i+1], withDef[:i])
				withDef[0] = e
				break
			}
		}
		if w.curT.run >= fairRun && len(withDef) > 1 {
			// fairness: a thread looping without blocking yields
			e := withDef[0]
			copy(withDef, withDef[1:])
			withDef[len(withDef)-1] = e
			curEnabled = false
		} else if w.curT.run >= fairRun && w.step-w.lastEvStep >= fairRun {
			// the only runnable thread spins without ever blocking (e.g.
			// lockWrite between a writer's failure and the read routine
			// noticing it): spinning takes time, so timers do get to fire:
			// its continuation costs a free switch, which makes the passage
			// of time the default
			spinning = true
		}
	}
	w.spinNow = spinning
	var menu []alt
	for i, e := range withDef {
		var sw Cost
		switch {
		case spinning:
			sw = Cost{S: 1} // going on without the passage of time is a deviation
		case e.th == w.curT && curEnabled:
		case i == 0:
		case curEnabled:
			sw = Cost{P: 1}
		default:
			sw = Cost{S: 1}
		}
		for _, a := range e.alts {
			a.cost = a.cost.add(sw)
			menu = append(menu, a)
		}
	}
	// broker-initiated message
	if w.bk.nextIn < len(w.scn.Inbound) {
		if c := w.liveConn(); c != nil && c.bk.connected && !c.bk.disconnected && (w.scn.InjectOK == nil || w.scn.InjectOK(w)) {
			cost := Cost{S: 1}
			if len(menu) == 0 {
				cost = Cost{}
			}
			menu = append(menu, alt{label: fmt.Sprintf("broker inject #%d", w.bk.nextIn), cost: cost, do: func() { w.bk.inject(c) }})
		}
	}
	// quit signals
	for _, a := range w.actors {
		if a.gen == w.gen && a.quitArmed != nil {
			a := a
			cost := Cost{S: 1}
			if len(menu) == 0 {
				cost = Cost{}
			}
			menu = append(menu, alt{label: "quit " + a.spec.Name, cost: cost, do: func() {
				w.ev(Event{K: "quit", T: a.spec.Name})
				close(a.quitArmed)
				a.quitArmed = nil
			}})
		}
	}
	if spinning {
		// time passes, then the spinner gets its next stretch (it is not
		// frozen: should the loop be productive after all, it goes on)
		cur := w.curT
		menu = append([]alt{{label: "tick (" + cur.name + " spins)", do: func() {
			for i := 0; i < 5; i++ {
				w.tick()
			}
			cur.run = -1
		}}}, menu...)
	} else if len(menu) == 0 || !menu[0].cost.zero() {
		// nothing can continue by itself: time passes
		menu = append([]alt{{label: "tick", do: w.tick}}, menu...)
	} else if w.scn.Faults.Tick && w.allow("tick") {
		menu = append(menu, alt{label: "tick", cost: Cost{T: 1}, do: w.tick})
	}
	for _, e := range faultOnly {
		menu = append(menu, e.alts...)
	}
	f := &w.scn.Faults
	if c := w.liveConn(); c != nil {
		if f.Cut && w.allow("cut") {
			menu = append(menu, alt{label: fmt.Sprintf("cut c%d", c.id), cost: Cost{F: 1}, do: func() {
				w.ev(Event{K: "cut", C: c.id})
				c.dead = true
			}})
		}
		if f.CutHalf && !c.halfDead && w.allow("cuthalf") {
			menu = append(menu, alt{label: fmt.Sprintf("cut-half c%d", c.id), cost: Cost{F: 1}, do: func() {
				w.ev(Event{K: "cut", C: c.id, S: "half"})
				c.halfDead = true
			}})
		}
		if f.CutDrop && len(c.in) > 0 && w.allow("cutdrop") {
			menu = append(menu, alt{label: fmt.Sprintf("cut+drop c%d", c.id), cost: Cost{F: 1}, do: func() {
				w.ev(Event{K: "cut", C: c.id, S: "drop"})
				c.dead = true
				c.in = nil
			}})
		}
	}
	if c := w.liveConn(); c != nil && f.BrokerResend && c.bk.connected && c.bk.sess != nil && w.allow("resend") {
		for _, m := range c.bk.sess.out {
			m := m
			if m.state == 1 {
				menu = append(menu, alt{label: fmt.Sprintf("broker resends PUBLISH %#04x", m.id), cost: Cost{F: 1}, do: func() {
					m.sends++
					w.ev(Event{K: "bk-resend", C: c.id, N: int(m.id)})
					w.bk.send(c, encPublish(m.qos, true, m.retain, m.id, m.topic, m.body))
				}})
			} else if m.state == 2 {
				menu = append(menu, alt{label: fmt.Sprintf("broker repeats PUBREL %#04x", m.id), cost: Cost{F: 1}, do: func() {
					w.ev(Event{K: "bk-resend", C: c.id, N: int(m.id), S: "pubrel"})
					w.bk.send(c, encAck(tPUBREL, m.id))
				}})
			}
		}
	}
	if len(w.scn.Hostile) > 0 && !w.hostileSent {
		if c := w.liveConn(); c != nil && c.bk.connected && (w.scn.HostileOK == nil || w.scn.HostileOK(w)) {
			for i, raw := range w.scn.Hostile {
				menu = append(menu, alt{label: fmt.Sprintf("hostile #%d %x", i, trunc(raw)), cost: Cost{F: 1}, do: func() {
					w.hostileSent = true
					w.hostileIdx = i
					w.ev(Event{K: "bk-hostile", C: c.id, N: i})
					w.bk.send(c, raw)
				}})
			}
		}
	}
	if f.Crash && w.gen < len(w.scn.Gens) && w.allow("crash") {
		if f.Damage == 0 || f.DamageOnce && len(w.damaged) > 0 {
			menu = append(menu, alt{label: "crash", cost: Cost{C: 1}, do: func() { w.crash(nil) }})
		} else {
			ds := w.damages()
			for i, d := range ds {
				menu = append(menu, alt{label: "crash+" + d.label, cost: Cost{C: 1}, do: func() { w.crash([]damage{d}) }})
				if f.Damage >= 2 {
					for _, d2 := range ds[i+1:] {
						if d2.key != d.key {
							menu = append(menu, alt{label: "crash+" + d.label + "+" + d2.label, cost: Cost{C: 1, F: 1}, do: func() { w.crash([]damage{d, d2}) }})
						}
					}
				}
			}
		}
	}
	return menu
}

func (w *World) tick() {
	time.Sleep(tickQuantum)
}

// stateKey hashes everything future behaviour and the monitors depend on.
func (w *World) stateKey() uint64 {
	h := w.logH
	if w.client != nil {
		h = mix(h, mqtt.VerifDump(w.client))
	}
	now := time.Now()
	w.sch.mu.Lock()
	for _, th := range w.sch.threads {
		if th.done || th.gen != w.sch.gen {
			continue
		}
		h = mix(h, th.name)
		h ^= th.hist
		h *= 1099511628211
		if th.parked {
			h = mix(h, "P")
		} else {
			h = mix(h, "B")
		}
	}
	w.sch.mu.Unlock()
	if w.curT != nil {
		h = mix(h, w.curT.name)
		if w.curT.run >= fairRun {
			h = mix(h, "hog")
		}
	}
	for _, c := range w.conns {
		if c.gen != w.gen {
			continue // connections of a stopped process
		}
		h ^= uint64(len(c.in))<<1 ^ uint64(c.brokerPos)<<20 ^ uint64(c.lost)<<40
		h *= 1099511628211
		if c.closed {
			h = mix(h, "x")
		}
		if c.dead {
			h = mix(h, "d")
		}
		if c.stallNext {
			h = mix(h, "s")
		}
		if c.halfDead {
			h = mix(h, "h")
		}
		if !c.rdl.IsZero() {
			if now.Before(c.rdl) {
				h = mix(h, "r")
			} else {
				h = mix(h, "R")
			}
		}
		if !c.wdl.IsZero() {
			if now.Before(c.wdl) {
				h = mix(h, "w")
			} else {
				h = mix(h, "W")
			}
		}
	}
	if w.hostileSent {
		h = mix(h, "H")
		h ^= uint64(w.hostileIdx) << 8
	}
	h = mix(h, w.bk.summary())
	h ^= uint64(w.bk.nextIn)
	h *= 1099511628211
	for _, a := range w.actors {
		h ^= uint64(a.pc)<<3 ^ uint64(a.gen)
		h *= 1099511628211
		if a.quitArmed != nil {
			h = mix(h, "q")
		}
	}
	if w.vfs != nil {
		// uncommitted spool files are state too (the log only has the commits)
		names := make([]string, 0, len(w.vfs.names))
		for n := range w.vfs.names {
			names = append(names, n)
		}
		sort.Strings(names)
		for _, n := range names {
			h = mix(h, n)
			h = mix(h, string(w.vfs.names[n].data))
		}
	}
	if w.scn.Key != nil {
		h = mix(h, w.scn.Key(w))
	}
	return h
}

func (w *World) newClient(adopt bool) error {
	cfg := w.scn.Config // copy
	cfg.Dialer = w.dial
	var err error
	if adopt {
		var warns []error
		w.client, warns, err = mqtt.AdoptSession(w.persistence(), &cfg)
		w.warns = warns
		for _, wn := range warns {
			w.ev(Event{K: "adopt-warn", S: wn.Error()})
		}
		if err != nil {
			w.ev(Event{K: "adopt-fatal", S: err.Error()})
		}
		return err
	}
	id := w.scn.ClientID
	if id == "" {
		id = "cid"
	}
	if w.scn.Volatile {
		w.client, err = mqtt.VolatileSession(id, &cfg)
	} else {
		w.client, err = mqtt.InitSession(id, w.persistence(), &cfg)
	}
	if err == nil && w.scn.Preset {
		mqtt.VerifPresetSeq(w.client, w.scn.PresetSeq[0], w.scn.PresetSeq[1])
	}
	return err
}

// crash stops the current generation at this instant and adopts the session
// from a copy of the store.
type damage struct {
	label string
	key   uint
	kind  string
	apply func(m map[uint][]byte)
}

// damages lists the single-record damages applicable to the current store.
func (w *World) damages() []damage {
	var out []damage
	recs := w.records()
	keys := make([]uint, 0, len(recs))
	for k := range recs {
		keys = append(keys, k)
	}
	sort.Slice(keys, func(i, j int) bool { return keys[i] < keys[j] })
	for _, k := range keys {
		v := recs[k]
		add := func(kind string, f func(m map[uint][]byte)) {
			out = append(out, damage{label: fmt.Sprintf("%s(%#x)", kind, k), key: k, kind: kind, apply: f})
		}
		flip := func(pos int) func(m map[uint][]byte) {
			return func(m map[uint][]byte) {
				b := clone(m[k])
				b[pos] ^= 0x21
				m[k] = b
			}
		}
		if len(v) >= 12 {
			if len(v) > 12 {
				add("flip-packet", flip(0))
			}
			add("flip-seq", flip(len(v)-12))
			add("flip-sum", flip(len(v)-1))
			add("trunc11", func(m map[uint][]byte) { m[k] = clone(m[k][:11]) })
			add("trunc-1", func(m map[uint][]byte) { m[k] = clone(m[k][:len(m[k])-1]) })
		}
		add("remove", func(m map[uint][]byte) { delete(m, k) })
	}
	out = append(out, damage{label: "stray(0x9abc)", key: 0x9abc, kind: "stray", apply: func(m map[uint][]byte) { m[0x9abc] = []byte("garbage-under-an-unused-key") }})
	out = append(out, damage{label: "stray(0x1beef)", key: 0x1beef, kind: "stray", apply: func(m map[uint][]byte) { m[0x1beef] = []byte("short") }})
	return out
}

func (w *World) crash(dmg []damage) {
	w.ev(Event{K: "crash"})
	snap := w.store.copy(w)
	var fsSnap *vfs
	if w.scn.FSStore {
		fsSnap = w.vfs.clone()
		snap.m = map[uint][]byte{}
		for k, v := range w.records() {
			snap.m[k] = clone(v)
		}
	}
	for _, d := range dmg {
		d.apply(snap.m)
		if fsSnap != nil {
			name := fmt.Sprintf("/d/%05x", d.key)
			if v, ok := snap.m[d.key]; ok {
				fsSnap.names[name] = &inode{data: clone(v)}
			} else {
				delete(fsSnap.names, name)
			}
		}
		w.ev(Event{K: "damage", N: int(d.key), S: d.kind})
		w.damaged = append(w.damaged, d)
	}
	snapCopy := map[uint][]byte{}
	for k, v := range snap.m {
		snapCopy[k] = clone(v)
	}
	w.crashSnaps = append(w.crashSnaps, crashSnap{step: w.step, gen: w.gen, logIdx: len(w.log), store: snapCopy})
	old := w.client
	// drain the old generation: its goroutines run free against dead
	// connections and a detached store
	for _, c := range w.conns {
		c.dead = true
	}
	w.sch.mu.Lock()
	w.sch.gen++
	w.sch.drain = true
	var parked []*thread
	for _, th := range w.sch.threads {
		if th.parked && !th.done {
			parked = append(parked, th)
		}
	}
	w.sch.mu.Unlock()
	for _, th := range parked {
		w.sch.release(th)
	}
	w.sch.spawnFree("crash-close", func() { old.Close() })
	for i := 0; i < 4; i++ {
		time.Sleep(tickQuantum)
		synctest.Wait()
	}
	w.drainClient(old, w.sch.gen-1) // part of the dead process: no disk access, no observations
	w.sch.mu.Lock()
	w.sch.drain = false
	w.sch.mu.Unlock()
	w.gen++
	w.store = snap
	if fsSnap != nil {
		w.mountFS(fsSnap)
	}
	// the old generation's exchanges are gone with their process; what its
	// goroutines still do to them while draining is not an observation
	for _, x := range w.xchs {
		x.closed = true
		x.abandoned = true
	}
	w.curT = nil
	if err := w.newClient(true); err != nil {
		prop := "C02"
		if w.scn.AdoptProp != "" && targetProp != "C02" { // a failing adoption is C02's business in any scenario
			prop = w.scn.AdoptProp
		}
		if len(dmg) > 0 {
			prop = "C16"
		}
		w.Violate(prop, "adopt-fatal", "AdoptSession failed after crash at step %d: %v", w.step, err)
		w.client = nil
		return
	}
	w.startActors(w.scn.Gens[w.gen-1])
}

func (w *World) startActors(specs []ActorSpec) {
	for i := range specs {
		w.startActor(&specs[i])
	}
}

// Exec is the outcome of one execution.
type Exec struct {
	Choices []int
	Labels  []string
	Points  []point
	Viol    []Violation
	Outcome string
	Steps   int
	Pruned  bool
	Horizon bool
	ToolErr string
	Trace   []string
	LogH    uint64
	Leak    bool // goroutines still blocked after teardown
	Keys    map[uint64]struct{}
}

type pruner interface {
	// visit reports whether the state was seen before (with this budget).
	visit(key uint64, spent Cost) bool
}

// runExec runs one execution: replays prefix, then takes the default at every
// later point.
func runExec(t *testing.T, scn *Scenario, prefix []int, pr pruner, trace bool) (x *Exec) {
	x = &Exec{}
	var w *World
	defer func() {
		if r := recover(); r != nil {
			msg := fmt.Sprint(r)
			if strings.Contains(msg, "blocked goroutines remain") || strings.Contains(msg, "deadlock: main bubble goroutine") {
				x.Leak = true
				return
			}
			x.ToolErr = "panic in harness: " + msg
		}
	}()
	// every connection allocates a read buffer; the scenarios' payloads are tiny,
	// so 4 KiB instead of 128 KiB unless the scenario is about the buffer size
	rb := scn.ReadBuf
	if rb == 0 {
		rb = 4096
	}
	oldBuf := mqtt.VerifSetReadBufSize(rb)
	defer mqtt.VerifSetReadBufSize(oldBuf)
	synctest.Test(t, func(t *testing.T) {
		w = &World{t: t, scn: scn, trace: trace}
		w.sch = newSched()
		w.bk = newBroker(w)
		w.store = &simStore{w: w, m: map[uint][]byte{}}
		mqtt.VerifGate = w.sch.Gate
		mqtt.VerifGateSel = w.sch.GateSel
		mqtt.VerifLockWait = w.sch.LockWait
		mqtt.VerifGoStart = w.sch.goStart
		mqtt.VerifGoEnd = w.sch.goEnd
		mqtt.VerifPanic = func(r any) { w.panics = append(w.panics, fmt.Sprint(r)) }
		mqtt.VerifConnName = func(c net.Conn) string {
			if sc, ok := c.(*simConn); ok {
				return sc.String()
			}
			return "?"
		}
		if scn.FSStore {
			w.mountFS(newVFS())
		}
		if err := w.newClient(false); err != nil {
			x.ToolErr = "client construction: " + err.Error()
			return
		}
		if scn.Init != nil {
			scn.Init(w)
		}
		w.startActors(scn.Actors)
		horizon := scn.Horizon
		if horizon == 0 {
			horizon = 4000
		}
		idleMax := scn.IdleTicks
		if idleMax == 0 {
			idleMax = 60
		}
		idle := 0
		var lastKey uint64
		for {
			synctest.Wait()
			w.collectObservations()
			if !scn.LazyExchanges {
				w.pollExchanges()
			}
			if w.client == nil {
				break
			}
			if scn.Done != nil && scn.Done(w) {
				break
			}
			if w.step >= horizon {
				w.horizonHit = true
				break
			}
			if scn.StepCheck != nil {
				scn.StepCheck(w)
			}
			menu := w.menu()
			key := w.stateKey()
			if w.keys != nil {
				w.keys[key] = struct{}{}
			}
			isIdle := menu[0].label == "tick"
			if isIdle && !w.spinNow && idle > 0 && key == lastKey {
				// time passes and nothing changes
				idle++
				if idle > idleMax {
					w.quiet = true
					break
				}
				w.tick()
				continue
			}
			lastKey = key
			if isIdle {
				idle = 1
			} else {
				idle = 0
			}
			n := len(w.choices)
			if pr != nil && n >= len(prefix) {
				if pr.visit(key, w.spent) {
					w.pruned = true
					break
				}
			}
			k := 0
			if n < len(prefix) {
				k = prefix[n]
				if k >= len(menu) {
					w.toolErr = fmt.Sprintf("replay divergence at point %d: choice %d of %d alternatives", n, k, len(menu))
					break
				}
			}
			costs := make([]Cost, len(menu))
			for i := range menu {
				costs[i] = menu[i].cost
			}
			w.points = append(w.points, point{costs: costs, spent: w.spent})
			w.choices = append(w.choices, k)
			w.labels = append(w.labels, menu[k].label)
			w.spent = w.spent.add(menu[k].cost)
			if trace {
				w.traceOut = append(w.traceOut, fmt.Sprintf("%4d [%d/%d] %s   {%s}", w.step, k, len(menu), menu[k].label, mqtt.VerifDump(w.client)))
			}
			prev := w.curT
			menu[k].do()
			if len(w.log) != w.lastEvLen {
				w.lastEvLen, w.lastEvStep = len(w.log), w.step
			}
			if w.curT == prev && w.curT != nil {
				w.curT.run++
			} else if w.curT != nil {
				w.curT.run = 0
			}
			w.step++
		}
		if !w.pruned && w.toolErr == "" {
			if len(w.panics) > 0 {
				w.Violate("C12", "panic", "library goroutine panicked: %v", w.panics)
			}
			if scn.LazyExchanges {
				w.pollExchanges()
			}
			if scn.Final != nil && w.client != nil {
				scn.Final(w)
			}
		}
		x.Outcome = w.outcome()
		x.Choices, x.Labels, x.Points = w.choices, w.labels, w.points
		x.Viol, x.Steps, x.Pruned, x.Horizon = w.viol, w.step, w.pruned, w.horizonHit
		x.ToolErr, x.Trace, x.LogH = w.toolErr, w.traceOut, w.logH
		if w.sch.toolErr != "" && x.ToolErr == "" {
			x.ToolErr = w.sch.toolErr
		}
		w.teardown()
	})
	return x
}

// outcome is a canonical digest of what the application observed.
func (w *World) outcome() string {
	var parts []string
	for _, e := range w.log {
		if e.K == "ret" {
			parts = append(parts, e.T+":"+e.S+"="+e.R)
		}
	}
	sort.Strings(parts)
	s := strings.Join(parts, ";")
	if w.horizonHit {
		s += " HORIZON"
	}
	return s
}

func (w *World) teardown() {
	// close the client first, with every other goroutine still parked: a
	// goroutine that spins on the library's state would otherwise keep the
	// bubble from ever becoming idle
	if c := w.client; c != nil {
		w.sch.spawnFree("teardown-close", func() { c.Close() })
		synctest.Wait()
	}
	w.sch.mu.Lock()
	w.sch.open = true
	var parked []*thread
	for _, th := range w.sch.threads {
		if th.parked && !th.done {
			parked = append(parked, th)
		}
	}
	w.sch.mu.Unlock()
	for _, c := range w.conns {
		c.dead = true
	}
	for _, a := range w.actors {
		if a.quitArmed != nil {
			close(a.quitArmed)
			a.quitArmed = nil
		}
	}
	for _, th := range parked {
		w.sch.release(th)
	}
	for i := 0; i < 4; i++ {
		time.Sleep(5 * tickQuantum)
		synctest.Wait()
	}
	w.drainClient(w.client, w.sch.gen)
}

// drainClient does what an application does after Close: it calls ReadSlices
// until ErrClosed comes back. Only that releases requests still waiting for
// their response, and a goroutine left waiting keeps its whole world alive.
func (w *World) drainClient(c *mqtt.Client, gen int) {
	if c == nil {
		return
	}
	w.sch.spawnFreeGen("drain-readslices", gen, func() {
		defer func() { recover() }()
		for i := 0; i < 6; i++ {
			_, _, err := c.ReadSlices()
			if os.Getenv("VERIF_DEBUG_LEAK") != "" {
				fmt.Fprintln(os.Stderr, "drain:", i, err)
			}
			if errors.Is(err, mqtt.ErrClosed) {
				return
			}
		}
	})
	synctest.Wait() // no timers involved: a closed client answers at once
}

var _ = context.Background
var _ = errors.New

func synctestWait() { synctest.Wait() }
