# Exploration plans per property and tier: a list of jobs, each a scenario of
# the harness with its deviation bound and an internal deadline (seconds).
# A job that hits its deadline reports exhaustive:false and still exits 0.

def J(scn, bound, deadline=60, **kw):
    d = dict(scn=scn, bound=bound, deadline=deadline)
    d.update(kw)
    return d

PLANS = {
    "C01": {
        "quick": [J("pubflow", "p=1,f=1,s=1", 30), J("pubflow", "f=2", 60), J("pubflowvol", "f=1,s=1", 60), J("pubflowvol", "f=2", 60), J("pubflowalias", "f=2", 40), J("restartdeliver", "c=2,s=1", 40)],
        "thorough": [J("pubflow", "p=2,f=2,s=2", 900), J("pubflowvol", "p=1,f=2,s=1", 400), J("pubflowalias", "p=1,f=2,s=1", 400), J("restartdeliver", "c=3,f=1,s=1", 400)],
    },
}

PLANS["C02"] = {
    "quick": [J("restart", "c=2,f=1", 90), J("restartwrap", "c=2", 40), J("restartfs", "c=1,f=1", 60), J("restart2p", "p=1,c=1,s=1", 60), J("window21", "c=1,f=1", 40), J("qos2hold", "c=2", 30)],
    "thorough": [J("restart", "c=3,f=2,p=1", 900), J("restartwrap", "c=3,f=1,p=1", 600), J("restartfs", "c=2,f=1", 600), J("restart2p", "p=2,c=1,s=1", 600)],
}

PLANS["C03"] = {
    "quick": [J("qos2out", "f=1,c=1", 60), J("qos2out", "f=2", 60), J("qos2out", "c=2,s=1", 60), J("pubflowvol", "f=1,s=1", 40), J("restartwrap", "c=2", 40), J("qos2hold", "c=2", 30), J("qos2mix", "f=2", 40)],
    "thorough": [J("qos2out", "f=3,c=2,p=1", 900), J("qos2mix", "p=1,f=3,s=1", 400)],
}
PLANS["C05"] = {
    "quick": [J("puborder", "p=1,f=1,s=1", 90), J("restartwrap", "c=1,f=1", 40), J("pubflowvol", "f=1,s=1", 60), J("restartdeliver", "c=2,s=1", 40), J("qos2hold", "c=2", 30)],
    "thorough": [J("puborder", "p=3,f=2,s=2", 900), J("restartwrap", "c=2,f=1,p=1", 400), J("pubflowvol", "f=2,s=1", 300), J("restartdeliver", "c=3,f=1,s=1", 400), J("qos2hold", "c=2,s=1,p=1", 200)],
}

PLANS["C08"] = {
    "quick": [J("writers", "p=1,f=1", 30), J("writers", "f=2", 60), J("writers2", "p=2,f=1", 60), J("writers2", "p=1,f=2", 60), J("pingpair", "p=1,f=1,s=1", 40), J("writerslen", "p=1,f=1", 30), J("race-client", "free-running, -race", 120, test="TestE3", shards=1, race=True)],
    "thorough": [J("writers", "p=2,f=2,s=1", 900), J("writers2", "p=3,f=1,s=1,t=1", 600), J("writers2", "p=1,f=2,s=1", 400), J("pingpair", "p=2,f=1,s=2", 300), J("writerslen", "p=2,f=1,s=1", 200), J("race-client", "thorough", 300, test="TestE3", shards=1, race=True)],
}
PLANS["C10"] = {
    "quick": [J("wedge", "p=1,f=1", 45), J("wedge", "f=2", 45), J("wedgeburst", "p=1,f=1", 45), J("wedgeblock", "f=2", 60), J("wedgebig", "f=2", 40)],
    "thorough": [J("wedge", "p=2,f=3,s=2", 900), J("wedgeburst", "p=2,f=2,s=1", 400), J("wedgeblock", "p=1,f=2,s=1", 400), J("wedgebig", "p=1,f=3,s=1", 300)],
}
PLANS["C11"] = {
    "quick": [J("reqresp", "p=1,f=1,sel=1", 60), J("reqresp", "f=1,s=2", 40), J("hostile", "f=1", 40), J("connectretry", "f=2", 40), J("c11-idwrap", "quick", 120, test="TestE3", shards=1)],
    "thorough": [J("reqresp", "p=3,f=2,s=2,sel=1", 900), J("c11-idwrap", "thorough", 120, test="TestE3", shards=1)],
}
PLANS["C12"] = {
    "quick": [J("shutdown1", "p=1,f=1,s=1", 60), J("shutdown1", "f=2,s=1", 40), J("shutdown1lazy", "p=1,f=1", 40), J("shutdownbig", "p=1,s=2", 40), J("shutdown2", "p=1,f=1,sel=1", 60), J("shutdown4", "p=1,f=1", 40), J("shutdown5", "p=1,f=1,s=1", 40), J("shutdown6", "p=1,f=2", 40)],
    "thorough": [J("shutdown1", "p=2,f=1,s=2", 300), J("shutdown1", "p=1,f=2,s=1", 300), J("shutdown1lazy", "p=2,f=1,s=1", 300), J("shutdownbig", "p=2,s=2,f=1", 300), J("shutdown2", "p=2,f=1,s=2,sel=1", 300), J("shutdown3", "p=2,f=1,s=2,sel=1", 300), J("shutdown4", "p=2,f=1,s=2,sel=1", 300), J("shutdown5", "p=2,f=1,s=2,sel=1", 300), J("shutdown6", "p=2,f=2,s=1", 300)],
}

PLANS["C04"] = {
    "quick": [J("qos2in", "f=2,c=1", 90)],
    "thorough": [J("qos2in", "f=3,c=2", 900)],
}
PLANS["C06"] = {
    "quick": [J("inbound32", "f=2", 60), J("inbound32skip", "f=2", 60), J("inbound64", "f=1", 30), J("inboundctl", "f=2", 60), J("inboundcut", "f=2", 60), J("c06-lengths", "quick", 120, test="TestE3", shards=1)],
    "thorough": [J("inbound32", "f=2", 600), J("inbound32skip", "f=2", 600), J("inbound64", "f=2", 600), J("inboundctl", "f=3", 600), J("inboundcut", "f=3", 600), J("c06-lengths", "thorough", 300, test="TestE3", shards=1)],
}
PLANS["C07"] = {
    "quick": [J("acktiming", "p=1,f=1,s=1", 90), J("qos2in", "f=1,c=1", 40), J("ackresend", "p=1,f=1,s=1", 40), J("ackresend", "f=2", 40)],
    "thorough": [J("acktiming", "p=2,f=2,s=2", 900), J("qos2in", "f=2,c=1", 400), J("ackresend", "p=2,f=2,s=1", 400)],
}

PLANS["C17"] = {
    "quick": [J("window21", "p=1,f=1", 30), J("window21x", "p=2,f=1", 30), J("qos2hold", "c=2", 30), J("window21wrap", "c=1,f=1", 60), J("window10", "p=1,f=1", 15), J("window3neg", "c=1,f=1", 30), J("c17-longrun", "quick", 120, test="TestE3", shards=4), J("c17-slots", "quick", 120, test="TestE3", shards=1), J("c11-idwrap", "quick", 120, test="TestE3", shards=1)],
    "thorough": [J("window21", "p=2,f=2,c=1,s=1", 400), J("window21x", "p=3,f=1,s=2", 300), J("c11-idwrap", "thorough", 120, test="TestE3", shards=1), J("window21wrap", "p=2,f=2,c=1,s=1", 400), J("window10", "p=2,f=2,c=1", 200), J("window3neg", "p=2,f=2,c=1", 200), J("c17-longrun", "thorough", 600, test="TestE3", shards=4), J("c17-slots", "thorough", 120, test="TestE3", shards=1)],
}
PLANS["C18"] = {
    "quick": [J("connect", "p=1,f=1", 45), J("connectclean", "p=1,f=1", 45), J("connectretry", "f=3", 45)],
    "thorough": [J("connect", "p=1,f=2,s=1", 600), J("connectclean", "p=1,f=2,s=1", 600), J("connectfull", "f=1", 300), J("connectretry", "p=1,f=4,s=1", 400)],
}

PLANS["C13"] = {
    "quick": [J("hostile", "f=1", 80), J("hostilepart", "f=1,s=1", 80), J("acktiming", "p=1", 40)],
    "thorough": [J("hostilefull", "f=1", 600), J("hostileany", "f=1,s=1", 900)],
}

PLANS["C09"] = {
    "quick": [J("c09-requests", "quick", 120, test="TestE3"), J("c09-sizes", "quick", 120, test="TestE3", shards=4), J("c09-connect", "quick", 120, test="TestE3"), J("c09-backlog", "quick", 60, test="TestE3", shards=4), J("c17-slots", "quick", 120, test="TestE3", shards=1)],
    "thorough": [J("c09-requests", "thorough", 600, test="TestE3"), J("c09-sizes", "thorough", 900, test="TestE3", shards=4), J("c09-connect", "thorough", 600, test="TestE3"), J("c09-backlog", "thorough", 120, test="TestE3", shards=4), J("c17-slots", "thorough", 120, test="TestE3", shards=1)],
}

PLANS["C15"] = {
    "quick": [J("c15-codec", "quick", 120, test="TestE3"), J("c15-denied", "quick", 60, test="TestE3", shards=1), J("c15-live", "quick", 60, test="TestE3", shards=8), J("puborder", "p=1,f=1", 60)],
    "thorough": [J("c15-codec", "thorough", 900, test="TestE3"), J("c15-denied", "thorough", 60, test="TestE3", shards=1), J("c15-live", "thorough", 600, test="TestE3", shards=8), J("puborder", "p=2,f=1,s=1", 600), J("restart", "c=1,p=1", 300)],
}
PLANS["C20"] = {
    "quick": [J("c20-doubles", "quick", 120, test="TestE3"), J("race-doubles", "free-running, -race", 120, test="TestE3", shards=1, race=True)],
    "thorough": [J("c20-doubles", "thorough", 600, test="TestE3"), J("race-doubles", "free-running, -race", 120, test="TestE3", shards=1, race=True)],
}

PLANS["C14"] = {
    "quick": [J("c14-classifiers", "quick", 120, test="TestE3"), J("errclass", "p=1,f=1,sel=1", 60), J("reqresp", "p=1,f=1,sel=1", 30), J("hostile", "f=1", 30), J("window21", "p=1,f=1", 30), J("window10", "p=1,f=1", 15)],
    "thorough": [J("c14-classifiers", "thorough", 600, test="TestE3"), J("errclass", "p=2,f=2,s=1,sel=1", 600), J("reqresp", "p=2,f=2,sel=1", 400), J("shutdown2", "p=1,f=1,s=1,sel=1", 300)],
}

PLANS["C16"] = {
    "quick": [J("damage1", "c=1,s=1", 90), J("damagebulk1", "c=1,f=1", 60), J("damagebulk2", "c=1,f=1", 60), J("damagerel", "c=1,s=1", 40), J("damagerel2", "c=2", 60), J("damagefill", "c=2", 60), J("damagefs", "c=1,s=1", 60), J("damagefs1", "c=1", 40)],
    "thorough": [J("damage1", "c=1,s=2,p=1", 600), J("damage2", "c=1,f=1,s=1", 900), J("damagebulk1", "c=1,f=1,s=1", 300), J("damagebulk2", "c=1,f=1,s=1", 300), J("damagerel", "c=1,s=2,p=1", 300), J("damagerel2", "c=2,s=1,f=1", 600), J("damagefill", "c=2,s=1,p=1", 400), J("damagefs", "c=2,s=1", 600), J("damagefs1", "c=1,s=2,p=1", 300)],
}

PLANS["C19"] = {
    "quick": [J("c19-stops", "quick", 120, test="TestE3"), J("fsconc1", "p=3,s=3", 40), J("fsconc2", "p=3,s=3", 40), J("fsconc3", "p=3,s=3", 40), J("c19-kernel", "quick", 120, test="TestE3", shards=4)]
    + [J("fsbit%02d" % b, "p=2,s=2", 30, shards=4) for b in range(17)]
    + [J("race-fs", "free-running, -race", 120, test="TestE3", shards=1, race=True)],
    "thorough": [J("c19-stops", "thorough", 900, test="TestE3"), J("fsconc1", "p=6,s=6", 600), J("fsconc2", "p=6,s=6", 600), J("fsconc3", "p=6,s=6", 600), J("c19-kernel", "thorough", 600, test="TestE3", shards=4)]
    + [J("fsbit%02d" % b, "p=4,s=4", 120) for b in range(17)]
    + [J("race-fs", "free-running, -race", 120, test="TestE3", shards=1, race=True)],
}

LEVELS = {}

ASSUMPTIONS = {
    "*": [
        "the simulated Dialer, net.Conn, Persistence and reference broker stand for the real environment; their answers are the explored alphabet",
        "interleavings are explored at synchronisation operations (auto-inserted gates) and environment calls; code between two gates is assumed race free (separate free-running -race pass)",
        "a failing Persistence operation has no effect; Load returns a private copy except in the pubflowalias scenario (the store's own memory)",
        "go1.26.8 with testing/synctest runs the library; the baseline suite runs with the default toolchain",
    ],
}
