#!/bin/bash
# seedeval.sh <worktree> <property> [more properties…]
# Confirms a seeded change (suite green, demo fails with / passes without) and
# runs the quick checks of the given properties against the worktree.
set -u
wt=$1; shift
export GOFLAGS=-mod=mod GOPROXY=off GOSUMDB=off GOTOOLCHAIN=local
cd "$wt"
git diff -- '*.go' ':!*_test.go' > /tmp/seedeval.patch
echo "== patch: $(grep -c '^[-+][^-+]' /tmp/seedeval.patch) changed lines in $(git diff --stat -- '*.go' ':!*_test.go' | tail -1)"
echo "== suite with change (demo skipped)"
go test -timeout 120s -vet=off -count=1 -skip 'TestSeededDemo' ./... 2>&1 | tail -3
echo "== demo with change (expect FAIL)"
go test -timeout 120s -vet=off -count=1 -run 'TestSeededDemo$' ./... 2>&1 | grep -E "^(ok|FAIL|---|panic)" | head -5
git apply -R /tmp/seedeval.patch
echo "== demo without change (expect ok)"
go test -timeout 120s -vet=off -count=1 -run 'TestSeededDemo$' ./... 2>&1 | grep -E "^(ok|FAIL|---|panic)" | head -5
git apply /tmp/seedeval.patch
cd /verif
for p in "$@"; do
  echo "== ./check $p --tier quick --src $wt"
  ./check "$p" --tier quick --no-evidence --src "$wt" 2>&1 | grep -v "^KNOWN" | cut -c1-330 | head -14
done
