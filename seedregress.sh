#!/bin/bash
# seedregress.sh [name…] — applies every archived seeded change to a scratch
# worktree of /repo's HEAD and runs the quick check of its property against it.
# Prints one line per change: CAUGHT / MISSED / NOAPPLY.
cd /verif
names=("$@"); [ ${#names[@]} -eq 0 ] && names=($(ls -d seeded/*/ | xargs -n1 basename))
for n in "${names[@]}"; do
  d=seeded/$n; prop=$(python3 -c "import json;m=json.load(open('$d/meta.json'));print(m.get('check',m['property']))")
  wt=/tmp/seedreg_$n
  git -C /repo worktree add -q --detach $wt HEAD 2>/dev/null || { echo "$n NOWORKTREE"; continue; }
  if ! git -C $wt apply $PWD/$d/patch.diff 2>/dev/null && ! git -C $wt apply -3 $PWD/$d/patch.diff 2>/dev/null; then
    echo "$n ($prop) NOAPPLY"; git -C /repo worktree remove --force $wt; continue
  fi
  out=$(./check $prop --tier quick --no-evidence --src $wt 2>&1); rc=$?
  sig=$(echo "$out" | grep -m1 "sig=" | sed 's/.*sig=\([^ ]*\).*/\1/')
  if [ $rc -eq 1 ]; then echo "$n ($prop) CAUGHT $sig"; elif [ $rc -eq 0 ]; then echo "$n ($prop) MISSED"; else echo "$n ($prop) TOOLERR $(echo "$out" | grep -m1 -A1 TOOL-ERROR | tail -1 | cut -c1-160)"; fi
  git -C /repo worktree remove --force $wt
done
git -C /repo worktree prune
