#!/bin/bash
# seedsave.sh <worktree> <name> <property> <caught-by> <needs…>
set -e
wt=$1; name=$2; prop=$3; caught=$4; shift 4; needs="$*"
d=/verif/seeded/$name
mkdir -p $d
(cd $wt && git diff -- '*.go' ':!*_test.go' > $d/patch.diff)
cp $wt/seeded_demo_test.go $d/seeded_demo_test.go.txt 2>/dev/null || cp $wt/*/seeded_demo_test.go $d/seeded_demo_test.go.txt 2>/dev/null || true
cp $wt/SEED_NOTES.md $d/ 2>/dev/null || true
python3 - "$d" "$prop" "$caught" "$needs" "$(cd /repo && git rev-parse --short HEAD)" <<'PY'
import json,sys
d,prop,caught,needs,base=sys.argv[1:6]
json.dump({"property":prop,"needs":needs,"base_commit":base,
 "what_was_run":["suite with the change (demo skipped): pass","TestSeededDemo with the change: FAIL","TestSeededDemo without the change: pass","./check %s --tier quick --src <worktree with the change>"%prop],
 "caught_by":caught,"author":"independent sub-agent given only the property text and a scratch worktree"},open(d+"/meta.json","w"),indent=1)
PY
echo saved $d
