#!/bin/bash
# setup_cmd: builds the instrumenter and warms the Go build cache. Offline.
set -e
cd "$(dirname "$0")"
export GOFLAGS=-mod=mod GOPROXY=off GOSUMDB=off GOTOOLCHAIN=local
export GOCACHE="$PWD/.cache/go-build"
mkdir -p bin .cache evidence replays
(cd instrument && go build -o ../bin/verif-instrument . && cp hooks.go.txt ../bin/)
# warm the cache: instrumented build of the harness against /repo
tmp=$(mktemp -d /tmp/verif-setup-XXXXXX)
trap 'rm -rf "$tmp"' EXIT
bin/verif-instrument /repo "$tmp/ov" 2>/dev/null
cp -r mc "$tmp/mc"
(cd "$tmp/mc" && go1.26.8 test -c -tags verif -overlay "$tmp/ov/overlay.json" -vet=off -o "$tmp/mc.test" .)
# and the same with the race detector, for the free-running pass
(cd "$tmp/mc" && CGO_ENABLED=1 go1.26.8 test -c -race -tags verif -overlay "$tmp/ov/overlay.json" -vet=off -o "$tmp/mc.race.test" .)
echo setup ok
